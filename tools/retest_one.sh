#!/bin/sh
# usage: tools/retest_one.sh <ID> <A|B> <pytest node id> [patch]  -- re-runs one test with the seeded change applied (scratch worktree)
ID=$1; V=$2; T=$3; PATCH=${4:-/tmp/seed/$ID/seed/$V.diff}
W=/tmp/retest_${ID}_$V
rm -rf $W; git -C /repo worktree add --detach $W HEAD -q || exit 3
cd $W && git apply "$PATCH" || exit 3
timeout 7000 /venv/bin/python -m pytest -q -p no:cacheprovider --timeout=6500 "$T" 2>&1 | tail -3 > /root/logs/retest_${ID}_$V.log
cd /; git -C /repo worktree remove --force $W
echo "retest $ID $V: $(tail -1 /root/logs/retest_${ID}_$V.log)" >> /root/logs/retest_done.txt
