#!/bin/sh
# usage: tools/seedtest.sh <property id> <patch file> [tier] [extra check args]
# applies the patch to a scratch worktree of /repo (never to /repo itself), runs the check against it, removes the worktree
ID=$1; PATCH=$2; TIER=${3:-quick}; shift; shift; shift 2>/dev/null
W=/tmp/mut_$$
rm -rf $W; git -C /repo worktree add --detach $W HEAD -q || exit 3
( cd $W && git apply "$PATCH" ) || { echo "PATCH DOES NOT APPLY"; git -C /repo worktree remove --force $W; exit 3; }
cd /verif
SYMX_REPO=$W timeout 3000 ./check $ID --tier $TIER --no-evidence "$@" 2>&1 | grep "^\[\|VIOLATION\|HARNESS-ERROR\|INCONCLUSIVE\|KNOWN-FINDING\|  case=" | cut -c1-400 | head -${SEEDTEST_LINES:-8}
git -C /verif clean -fdq replays/
git -C /repo worktree remove --force $W
