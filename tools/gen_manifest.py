#!/usr/bin/env python3
"""Regenerates /verif/MANIFEST.json from the table below (kept in one place so it is always valid)."""
import json
import os

V = os.path.dirname(os.path.dirname(os.path.abspath(__file__)))

TECH = "symbolic execution of the repository's own Python/numba source (re-execution DFS over branch decisions) with z3 deciding every assertion per path; counterexamples replayed on the compiled package"

CHECKS = {
    "C18": dict(
        text="Bounded symbolic model checking of every function in vectorizers/distances.py: for all index arrays of length <= 2 (quick) / 3 (thorough) with unbounded strictly increasing indices and arbitrary real data the sparse sum/difference/product/union helpers equal dense arithmetic in indices and values and never write their inputs; for all non-negative vectors of dimension <= 2/3 the distances are symmetric, non-negative, within range, zero on proportional/equal inputs, satisfy the triangle inequality (TV, Kantorovich), and each sparse distance equals its dense counterpart. Real arithmetic, sqrt exact, log uninterpreted.",
        note="Bounds as stated; float rounding outside except the IEEE lemma; hellinger beyond dimension 1 only for proportional inputs and sparse-vs-dense (z3 returns unknown on the Cauchy-Schwarz step otherwise). Trusted: z3, the numpy array model (validated per path against the real build: traces_validated_against_impl).",
        ref="4/C18"),
}

CHECKS["C04"] = dict(
    text="Bounded symbolic model checking of the COO accumulator (coo_append, coo_sum_duplicates, merge_sum_duplicates, merge_all_sum_duplicates, coo_increase_mem) driven as the numba_build_* drivers do: for every sequence of K appends with symbolic keys and positive real values, every buffer capacity in the grid and the sort threshold lowered so that every threshold (sort, merge, growth) is crossed within the bound, each key ends up stored exactly once with the sum of its values and its own row/col. One inductive merge_sum_duplicates step from EVERY run-stack state satisfying the representation invariant (occupancy patterns of a stack of depth <= 3 / 4, symbolic keys and values, stale slots) preserves the per-key mass and re-establishes the invariant, which covers histories of any length (the 5th-batch state of a 65 536-entry threshold included). Class level: TokenCooccurrence and the MultiSet / Timed / Ngram co-occurrence vectorizers give the same matrix for n_threads 1..3, 1 kB buffers and tiny fixed buffer capacities (growth inside every driver loop) as for the defaults.",
    note="Bounds: capacity 4..8 (12 thorough), COO_QUICKSORT_LIMIT lowered to 2..4, K <= 6 (8), 2-3 distinct keys; float32 summation order outside (Real arithmetic). Real OS threads are not run: chunk tasks are sequentialised by the dask model and their matrices summed exactly.",
    ref="4/C04")
CHECKS["C03"] = dict(
    text="Bounded symbolic model checking of the real numba_build_skip_grams + window_at_index + flat/harmonic/geometric kernels + accumulator against a reference written from the statement: for all token sequences within the bound, all per-token radii, offsets, kernel-normalisation flags, geometric powers and positive mix weights the stored cells equal the windowed kernel-weighted count, stay inside their window's column block and never cross a document boundary; 'before' is the transpose of 'after' for equal fixed radii; two windows whose totals are combined with kernel-level normalisation and offsets that can empty one side; class level: orientation expansion with mixed orientation lists, block order and column labels, frequency-dependent ('variable') radii.",
    note="Bounds: <= 3-4 tokens in <= 3 documents, vocabulary 2-3, radius <= 2-3, <= 2 windows. Real arithmetic (float32 accumulation outside).",
    ref="4/C03")
CHECKS["C09"] = dict(
    text="Bounded symbolic model checking of the BPE kernels and of BytePairEncodingVectorizer end to end on strings of unconstrained code points: contraction is lossless for every code array up to the length bound (lengths 0 and 1 included), both contraction kernels agree, every encoding returned by fit_transform and transform decodes to its string (characters above max_char_code_ -> 0), transform(train) == fit_transform, tokens are concatenations of their pairs, the vocabulary budget is respected, 'tokens' and 'matrix' outputs are views of the 'sequences' output with the fitted width.",
    note="Bounds: code arrays <= 4 (7 thorough); corpora of total <= 6-7 characters, max_vocab_size <= 3, min_token_occurrence <= 2. uint32 wrap of the declared locals outside.",
    ref="4/C09")

CHECKS["C19"] = dict(
    text="Bounded symbolic model checking of SlidingWindowTransformer.fit/transform (sliding_windows, build_matrix_kernel, averaging/difference/weight kernels) and SequentialDifferenceTransformer: for every width 1..4, stride 1..3, pad_width 0..2 (solver case split), every documented form of window_sample and symbolic real element / pad / weight values the number of windows is ceil((L-width+1)/stride), every output cell equals the kernel applied to the sampled in-range entries, no cell of the np.empty result buffer stays uninitialised, the input is not written; SequentialDifferenceTransformer returns x[i+stride]-x[i] for every valid i and stride 1..3.",
    note="Bounds: L <= 5 (8 thorough), 1-d and 2-column sequences; random sampling, callable kernels, position_velocity / gaussian kernels and non-increasing index lists are outside (listed as uncovered).",
    ref="4/C19")

CHECKS["C06"] = dict(
    text="Bounded symbolic model checking of the real NgramVectorizer (exact / subgrams, n <= 2 quick, 3 thorough, masking, pruning), SkipgramVectorizer (fixed radius, flat / harmonic, fixed dictionaries with unobserved tokens), EdgeListVectorizer (duplicate edges, joint_space, fixed row dictionary) and NgramVectorizer.__add__: with tokens / labels as unconstrained integers (a path fixes only their equality and order pattern) every cell of fit_transform and transform equals the count / summed kernel weight / summed edge value of the statement, and the sum of two unigram models equals a fit on the concatenated corpora (columns, training matrix up to column order, transform) for every iteration order of the set of new words (case split; replayed with string tokens under several PYTHONHASHSEEDs).",
    note="Bounds: <= 5 symbols (7 thorough) over fit + transform corpora, <= 4 edges; Real arithmetic for weights. Known finding F19 (subgrams 1-gram columns) is reported as KNOWN-FINDING, every other cell of that mode is still checked.",
    ref="4/C06")
CHECKS["C16"] = dict(
    text="Bounded symbolic model checking of LZCompressionVectorizer.fit_transform / transform with lempel_ziv_based_encode and counts_to_csr_data on strings of unconstrained code points: every row equals the counts of the string's own reference parse on the fitted columns (base dictionary, max_dict_size cap), row totals equal len(string) + base counts when the cap is not reached, transform keeps the fitted width and ignores unseen phrases, each batch row equals the singleton transform; with column hashing (hash = arbitrary function into [0, max_columns)) at most max_columns columns and unchanged row totals.",
    note="Bounds: <= 5 characters (7 thorough) over fit + transform strings, max_dict_size 2..8, max_columns 2..3. murmurhash arithmetic is replaced by an arbitrary function (stub listed in the evidence).",
    ref="4/C16")
CHECKS["C01"] = dict(
    text="Bounded symbolic model checking of fit followed by transform on an independent symbolic batch for Ngram, Skipgram, EdgeList (incl. user dictionaries with gapped indices), LZCompression, BytePairEncoding('matrix'), TokenCooccurrence and (shape only) the MultiSet / Timed / Ngram co-occurrence vectorizers: no exception escapes transform, the result has one row per item (fitted shape for EdgeList) and exactly the fitted number of columns, and every cell equals the count of the fitted column's label in the item - unseen tokens / labels / phrases / codes are ignored.",
    note="Bounds as in C06 / C16 / C09. Histogram is covered under C20; KDE, Distribution and the Wasserstein family are listed as uncovered in the evidence.",
    ref="4/C01")
CHECKS["C02"] = dict(
    text="Symbolic differential of the real pipelines: for Ngram, Skipgram, EdgeList, BytePairEncoding (sequences), TokenCooccurrence, the MultiSet / Timed / Ngram co-occurrence vectorizers, RowDenoising and LabelledTreeCooccurrence fit returns the estimator itself and fit(X).transform(X) equals fit_transform(X) cell by cell (code by code) for every corpus within the bound, including masking and pruning configurations.",
    note="Bounds as in C06 / C09. InformationWeight / CountFeatureCompression / SlidingWindow, Histogram / KDE / Distribution and the optimal-transport classes are listed as uncovered (C08 decides that transform hands the kernels the same arguments as fit).",
    ref="4/C02")
CHECKS["C12"] = dict(
    text="Singleton differential on the real transform of Ngram, Skipgram, LZCompression, BytePairEncoding(matrix), Histogram, InformationWeight, RowDenoising and CountFeatureCompression (constructed fitted state), plus the Wasserstein plumbing (every row embedded once from its own segment for every block size) and the chunk loop of the real per-row LOT kernels: for an arbitrary fitted model and a symbolic batch, row i of transform(batch) equals transform([item i]) - which subsumes concatenation, permutation and duplication of batches.",
    note="Bounds: batches of <= 2-3 items, <= 3 symbols per item. KDE / Distribution / SlidingWindow and the Sinkhorn batch coupling are listed as uncovered in the evidence.",
    ref="4/C12")

CHECKS["C05"] = dict(
    text="(a) Bounded symbolic model checking of the real preprocess_token_sequences / prune_token_dictionary / construct_document_frequency on symbolic corpora with *symbolic* occurrence, frequency and document bounds, excluded set and max_unique_tokens against the set comprehension of the statement (kept set, top-k rule, indices 0..n-1 in sorted token order, inverse dictionary, re-indexed sequences). (c) second-stage n-gram pruning of NgramVectorizer (ngram_size 2) with symbolic occurrence / document bounds: the fitted columns are exactly the bigrams of the token-pruned sequences meeting every bound. (b) IEEE-754 lemma on the real construct_token_dictionary_and_frequency + prune_token_dictionary with bit-vector backed counts and numpy NEP-50 float32/float64 promotion: for every total n up to the bound and every count c, a token occurring exactly min_occurrences / max_occurrences times is kept and the adjacent count on the wrong side is pruned.",
    note="Bounds: (a) <= 4 tokens in <= 3 documents (6 thorough); (b) n <= 32 quick / 512 thorough, c symbolic. excluded_token_regex is outside (regular expressions); np.bincount is stubbed in (b).",
    ref="4/C05")

CHECKS["C11"] = dict(
    text="(a) Bounded symbolic model checking of one step of the real em_update_matrix from an arbitrary state: every subset of stored CSR cells, symbolic positive priors, arbitrary initial posterior, symbolic window contents and kernel weights - mass lands only in the target row's slice, sums to exactly one (zero when no context cell is stored), each cell receives kernel*prior/sum, and no access leaves the row (the array model's bounds check). One inductive step covers occurrence sequences of any length. (b) TokenCooccurrenceVectorizer with n_iter 0..2 and a symbolic epsilon in [0,1] against a dense implementation of the documented procedure, with the consequences (entries in [0,1], column sums <= 1, support non-increasing), including several chunks (n_threads > 1) with several sweeps.",
    note="Bounds: (a) vocabulary 2 (3 thorough), <= 2 windows of <= 2-3 contexts; (b) <= 3-4 tokens, radius <= 2. Non-linear real arithmetic decided by z3 (nlsat) without time-outs at these sizes. Other drivers share the kernel; float32 rounding outside.",
    ref="4/C11")
CHECKS["C14"] = dict(
    text="Bounded symbolic model checking of masking on the real TokenCooccurrenceVectorizer (fixed and frequency-dependent radii), NgramVectorizer and LabelledTreeCooccurrenceVectorizer (removed labels contracted away / kept under the mask / nullified, four orientations): with mask_string unset removed tokens are deleted (neighbours become adjacent), with mask_string set they are replaced in place so that window contents and distances are those of the masked sequence; the mask is exactly one extra vocabulary entry with the last index; with nullify_mask the mask row and all mask columns are zero and every other cell equals the masked computation without the mask's contributions - all against the reference written from the statement, for fit_transform, fit and transform.",
    note="Bounds: <= 3-5 tokens, radius <= 2, excluded-token and min_occurrences pruning. Timed / multiset / n-gram co-occurrence vectorizers share the code pattern but are not encoded (uncovered).",
    ref="4/C14")

CHECKS["C17"] = dict(
    text="Bounded symbolic model checking of the real information_weight / column_weights / column_kl_divergence_exact_prior and InformationWeightTransformer.fit / transform: for every sparsity pattern of a count matrix within the bound (one symbolic boolean per cell: explicit zeros, empty rows and columns included), symbolic non-negative real counts, a symbolic positive prior strength and every storage layout (CSC, CSR, COO with duplicates, unsorted indices, dense) each column weight equals KL(posterior || row-mass baseline) written from the statement, with log an uninterpreted function (equality up to congruence of its arguments); weights are finite, non-negative (Gibbs instances), permute with columns and ignore row order; the fitted transformer's weights are finite and non-negative and transform(X) is X[i, j] * weight[j] cell by cell (linear, no new non-zero), leaving the weights unchanged.",
    note="Bounds: matrices up to 2 x 2, 3 x 1, 1 x 3 quick (3 x 3 thorough); log and pow are uninterpreted functions with the axioms listed in the evidence (log(1) = 0, Gibbs instances at the arguments the kernel used, pow(a, b) >= 0 for a >= 0); queries are QF_UFNRA, decided by z3 after Ackermannization (fresh constants + congruence constraints) where the incremental solver returns unknown. Path witnesses are evaluated with the true log and compared with the compiled package. Approximate prior and supervised targets are not covered.",
    ref="4/C17")
CHECKS["C20"] = dict(
    text="Bounded symbolic model checking of the real HistogramVectorizer.fit / transform with find_bin_boundaries, expand_boundaries, add_outier_bins over a right-closed-interval model of pandas: for symbolic real training values, symbolic absolute_range bounds (or +-inf), both strategies and append_outlier_bins on/off, the fitted bins start and end at the absolute range, are non-reversed and share their edges (gap-free, non-overlapping, increasing); for symbolic real transform values anywhere (equal to training extremes, bin edges, range bounds, far outside) every cell equals the number of the row's values in its half-open bin, is a non-negative integer, and each row total equals the number of values in (range_lo, range_hi].",
    note="Bounds: <= 3-5 training values in <= 2 sequences, n_components 2..4, 2 transform sequences of 1-3 values. The pandas model (Interval, IntervalIndex, interval_range, cut().value_counts()) is validated by replaying one witness per explored path on the real pandas. Known finding F21 (constant training data) is reported as KNOWN-FINDING. The KDE clause is not decided (compiled sklearn KernelDensity; listed as uncovered).",
    ref="4/C20")

CHECKS["C10"] = dict(
    text="Bounded symbolic model checking of the kernels' memory accesses: the real source of every numba kernel reached by the harnesses of the other properties (coo_utils accumulator and em_update_matrix, BPE contraction kernels, window functions and kernels, the token / multiset / timed / n-gram co-occurrence drivers with 1 kB buffers, sliding windows, LZ, distances, n-gram / skip-gram builders, information-weight kernels incl. approximate and supervised, the row-denoising EM kernel) is executed with Python semantics on symbolic inputs; every subscript carries the assertion -n <= i < n decided by the solver on each path, reads of np.empty / never-assigned memory and uses of unassigned locals are faults. A fault is replayed on the compiled package under NUMBA_BOUNDSCHECK=1; the result of each explored path is additionally compared with the compiled result (same result as normal execution).",
    note="Bounds: those of the host harnesses (sequences of <= 3-5 tokens, strings <= 5-7 characters, buffers of capacity 4..12 with lowered sort threshold, matrices <= 3 x 3 ...). Functional assertions are switched off in this check (memory_only), only index / uninitialised / unbound faults count. Optimal-transport kernels and third-party compiled code are outside; the row-denoising fix-point loop is not unrolled.",
    ref="4/C10")

CHECKS["C13"] = dict(
    text="Bounded symbolic model checking of one inductive step of every call history: from an arbitrary fitted model (the real fit on a symbolic corpus) the real transform runs on symbolic batches Y1, Y2 and Y1 again for NgramVectorizer (plain, masked, user dictionary), SkipgramVectorizer, TokenCooccurrenceVectorizer (plain, masked, user dictionary + mask), MultiSet / Timed / Ngram co-occurrence vectorizers, LZCompression, BytePairEncoding, EdgeList, InformationWeightTransformer and RowDenoisingTransformer; asserted on every path: the complete attribute state of the estimator after each transform equals the state before (deep comparison decided by the solver), the repeated transform(Y1) returns the same result, every list passed in still holds the same objects, and no store reaches a caller-owned array, sparse matrix or dictionary (purity monitors of the array / dict / sparse models: in-place sort_indices / eliminate_zeros / item writes are faults). Further cases: two fits of CountFeatureCompressionTransformer with the same symbolic integer random_state (0 included) seed the randomised SVD with that integer; the blockwise lot_vectors_sparse runs on a file-system model with a failure injected at a symbolic block and must leave no temporary file or directory behind (known finding F26); LabelledTreeCooccurrenceVectorizer with CSR and LIL adjacency input does not edit the caller's matrices.",
    note="Bounds: corpora of <= 3-4 tokens / characters / edges per call, matrices 2 x 2 (3 x 2 thorough). Writes-nothing-it-reads is the inductive step that extends to histories of any length. Not covered here: Histogram / KDE / Distribution / SlidingWindow, the random_state handling of the optimal-transport classes, temporary files of the dense / generator / Sinkhorn block loops (listed as uncovered in the evidence).",
    ref="4/C13")

CHECKS["C07"] = dict(
    text="Bounded symbolic model checking of the repository's code around the network simplex: the real transport_plan and get_transport_plan run on pynndescent's real allocate_graph_structures, initialize_supply, initialize_cost and arc_id (source loaded from the installed package), with the pivoting loop replaced by its contract (some feasible optimal flow for the supplies, arcs and costs it was handed: fresh reals constrained by conservation, node potentials, complementary slackness). For symbolic p, q >= 0 summing to one (zeros allowed) and a symbolic non-negative cost of every shape within the bound the returned plan is non-negative, has row sums p and column sums q, and is optimal for the user's cost (dual certificate: u_i + v_j <= cost_ij with equality where plan_ij > 0) - which holds iff the arc <-> cell mapping, supply signs and cost placement are the bijection the code assumes. chunked_pairwise_distance writes every cell of its np.empty buffer exactly once with dist(data1[i], data2[j]) for all row / column counts and chunk sizes; both cost-orientation branches of the internal LOT kernels hand transport_plan the normalised row distribution, the reference distribution and cost[i, j] = dist(row vector i, reference vector j).",
    note="Bounds: n, m <= 3 quick (4 thorough), 1 x m and n x 1 included; chunked distance up to 4 x 4 with symbolic chunk size. Trusted: the optimality / termination of pynndescent's pivoting loop itself (contract stub) and float64 rounding (Real arithmetic) - the statement's 1e-9 / 1e-7 tolerances concern exactly that part. Replays: transport_plan against scipy's LP solver; the orientation cases under NUMBA_DISABLE_JIT=1 with the arguments of transport_plan recorded.",
    ref="4/C07")

CHECKS["C08"] = dict(
    text="Bounded symbolic model checking of the plumbing the repository owns around the optimal-transport solve, on the real WassersteinVectorizer.transform (sparse-matrix, list and generator input) started from a directly constructed fitted state with symbolic reference vectors / distribution / components: (A) with the per-row kernels replaced by an uninterpreted per-row function and memory_size a symbolic integer, every row is embedded exactly once, in order, from its own CSR segment / list element, the output is F(row_i) @ components.T for every block size, the weights reaching the sparse kernel are the row normalised to one, and the spherical flag and metric reaching the kernel are those fit uses, in every input format; (B) with the real internal kernels and real chunked distance and only the LP solve uninterpreted (plan = U(p, q, cost)), rescaling a row by c > 0, repeating rows in a longer batch and passing the same data as lists instead of a sparse matrix give the identical embedding, the caller's list arrays are never written, and truncation to max_distribution_size keeps the largest weights, renormalised, each with its own vector.",
    note="Bounds: <= 3-5 rows with <= 2-3 support points, 1-2 reference points of dimension 1, memory_size symbolic over every block size from 1 row to all rows. Not decided (LP uniqueness / floating-point SVD, listed as uncovered in the evidence): invariance under zero-weight padding, permutation and splitting of support points; distance preservation under a full-rank SVD; the Sinkhorn and heuristic methods; fit-time block loops.",
    ref="4/C08")

CHECKS["C15"] = dict(
    text="Bounded symbolic model checking of the real LabelledTreeCooccurrenceVectorizer (fit_transform / transform, sequence_tree_skip_grams, build_tree_skip_grams, sparse_collapse with LabelBinarizer's 1- and 2-class special cases, preprocess_tree_sequences, remove_node): for every rooted forest shape within the bound (parent arrays as case parameters, isolated nodes and several trees included), unconstrained symbolic labels (repeated labels are ordinary paths), window radius 1..3, flat / harmonic kernels, all four orientations and a symbolic removed label, every entry equals the kernel-weighted number of directed walks of at most radius steps between nodes with those labels, computed by an independent dynamic programme over the parent arrays after reconnecting children of removed nodes to their nearest kept ancestor; 'before' is the transpose, 'symmetric' the sum, 'directional' the concatenation; transform(X) equals fit_transform(X); on path graphs the matrix equals the real TokenCooccurrenceVectorizer's on the label sequence (symbolic differential of two implementations).",
    note="Bounds: trees of <= 3 nodes quick (4 thorough), <= 2 trees, radius <= 3, unweighted adjacency. The sparse-algebra model (products, transposes, LIL row lists, hstack, eye) keeps structure concrete and values symbolic and is validated by one replay per explored path on the real scipy. Not covered: weighted adjacency, mask_string / nullify_mask on trees, tree-occurrence bounds.",
    ref="4/C15")

NOT_YET = {}


def main():
    props = [json.loads(l) for l in open(os.path.join(V, "properties.jsonl"))]
    checks = []
    na = []
    for p in props:
        pid = p["id"]
        if pid in CHECKS:
            c = CHECKS[pid]
            checks.append({
                "property_id": pid,
                "quick_cmd": "./check %s --tier quick" % pid,
                "thorough_cmd": "./check %s --tier thorough" % pid,
                "evidence_file": "evidence/%s.json" % pid,
                "replay_cmd_template": "./check %s --replay {path}" % pid,
                "engine": "symx",
                "level_claimed": {"category": "model_checking", "text": c["text"], "design_ref": c["ref"]},
                "level_note": c["note"],
                "technique": c.get("technique", TECH),
            })
        else:
            na.append({"property_id": pid, "reason": NOT_YET.get(pid, "harness not built yet in this round (planned, see DESIGN.md section 4); no claim is made")})
    m = {
        "version": 1,
        "setup_cmd": "python3-vt -c \"import z3; print('z3', z3.get_version_string())\" && test -x /venv/bin/python",
        "hooks": {"guard": "VECTORIZERS_VERIF", "enable": "no source hooks are needed: the checks read /repo's source directly and replay on the installed package",
                  "baseline_off_cmd": "cd /repo && /venv/bin/python -m pytest -ra -q -p no:cacheprovider --timeout=900 --continue-on-collection-errors",
                  "source_commits": [], "add_only": True},
        "engines": [{"name": "symx", "path": "symx/", "serves_properties": sorted(CHECKS),
                     "kind_free_text": "own symbolic executor (z3 Python API, python3-vt) running the real /repo source under numpy/numba/scipy/sklearn environment models; IEEE-754 lemmas via z3/cvc5 FloatingPoint"}],
        "checks": checks,
        "not_applicable": na,
        "notes": "All checks: ./check <id> --tier quick|thorough; exit 0 held, 1 VIOLATION (replayed on the real build), 2 harness error / inconclusive. The thorough tier uses the larger bounds of each harness; its case grid is capped at SYMX_THOROUGH_CAP (default 700) worker jobs by a deterministic stride over the case list, recorded in the evidence (case_grid); SYMX_THOROUGH_CAP=0 runs the full grid.",
    }
    with open(os.path.join(V, "MANIFEST.json"), "w") as f:
        json.dump(m, f, indent=1)
    print("MANIFEST: %d checks, %d not_applicable" % (len(checks), len(na)))


if __name__ == "__main__":
    main()
