#!/bin/sh
# For every `fix:` commit of /repo: revert it in a scratch worktree (never in /repo) and run the check that found the
# defect; the check must raise a VIOLATION again ("reports the violation again if it ever returns").
cd "$(dirname "$0")/.." || exit 2
rc=0
while read -r commit id only; do
  [ -z "$commit" ] && continue
  W=/tmp/revert_$$; rm -rf $W
  git -C /repo worktree add --detach $W HEAD -q || exit 3
  if ! ( cd $W && git revert --no-commit $commit >/dev/null 2>&1 ); then
    echo "SKIP    $commit $id (revert conflicts with a later fix)"; git -C /repo worktree remove --force $W; continue
  fi
  out=$(SYMX_REPO=$W timeout 3000 ./check $id --tier quick --no-evidence --only "$only" 2>&1)
  git -C /verif clean -fdq replays/
  git -C /repo worktree remove --force $W
  if echo "$out" | grep -q "^VIOLATION property=$id"; then echo "caught  $commit $id [$only]"; else echo "MISSED  $commit $id [$only]: $(echo "$out" | grep '^\[' | cut -c1-160)"; rc=1; fi
done <<'LIST'
1b7213c C18 sparse_sum
5a4e35d C04 accumulate
4ef601b C09 contract
032d8d2 C09 bpe_e2e
0c6756e C09 bpe_e2e
44f8be9 C01 bpe_matrix
96afda5 C19 sample=int
5b091ba C19 difference_lemma
cca7ddb C16 lz[
26d03c9 C06 ngram_add
c32bef6 C02 ngram[
b136345 C01 edgelist
43b8350 C01 skipgram
939fb74 C06 skipgram
fe5f8e4 C11 em_unit
94f4955 C04 accumulate[cap=4
0d972d0 C04 coo_sizes
8ec50d7 C04 multiset_class
b3243e3 C17 fit_transform_scaling[2x1
60ab1a8 C17 kl_exact[1x3
eab1c63 C01 timed_class
ec58ad2 C13 token_dict_mask
24254e5 C13 matrix_transformer[info_weight,csc
f0f3eba C13 matrix_transformer[row_denoise
8b348b4 C08 transform_plumbing[lil
64f26a8 C08 transform_plumbing[spmatrix,euclidean
10cbb88 C08 transform_plumbing[lil,euclidean
078e2ee C08 measure_invariance[lil
LIST
exit $rc
