#!/usr/bin/env python3
"""print a python file with docstrings removed (reading aid)"""
import ast, sys
src = open(sys.argv[1]).read()
lines = src.split("\n")
tree = ast.parse(src)
skip = set()
for n in ast.walk(tree):
    if isinstance(n, (ast.FunctionDef, ast.ClassDef, ast.Module)) and n.body and isinstance(n.body[0], ast.Expr) and isinstance(getattr(n.body[0], "value", None), ast.Constant) and isinstance(n.body[0].value.value, str):
        for i in range(n.body[0].lineno, n.body[0].end_lineno + 1):
            skip.add(i)
lo = int(sys.argv[2]) if len(sys.argv) > 2 else 1
hi = int(sys.argv[3]) if len(sys.argv) > 3 else len(lines)
for i, l in enumerate(lines, 1):
    if lo <= i <= hi and i not in skip and l.strip():
        print("%4d %s" % (i, l))
