#!/bin/sh
# usage: tools/confirm_seed.sh <ID> <A|B> [patch override]   -- confirms a seeded change in a scratch worktree:
#   demo passes on the pristine tree, fails with the change, and the existing test-suite still passes with the change
ID=$1; V=$2; PATCH=${3:-/tmp/seed/$ID/seed/$V.diff}
W=/tmp/confirm_${ID}_$V
LOG=/root/logs/confirm_${ID}_$V.log
rm -rf $W; git -C /repo worktree add --detach $W HEAD -q || exit 3
mkdir -p $W/seed; cp /tmp/seed/$ID/seed/demo_$V.py $W/seed/
cd $W
[ -n "$SEED_THREADS" ] && export NUMBA_NUM_THREADS=$SEED_THREADS
{
echo "== demo on pristine"; timeout 1800 /venv/bin/python seed/demo_$V.py > seed/_p.out 2>&1; echo "exit=$?"; tail -3 seed/_p.out
git apply "$PATCH" || { echo "PATCH DOES NOT APPLY"; }
echo "== demo with change"; timeout 1800 /venv/bin/python seed/demo_$V.py > seed/_c.out 2>&1; echo "exit=$?"; tail -5 seed/_c.out
echo "== test suite with change"
timeout 7200 /venv/bin/python -m pytest -q -p no:cacheprovider --timeout=3000 --continue-on-collection-errors vectorizers/tests 2>&1 | tail -8
} > $LOG 2>&1
cd /; git -C /repo worktree remove --force $W
echo "done $ID $V" >> /root/logs/confirm_done.txt
