#!/bin/sh
# runs the repository's test-suite (xdist, 12 workers) and prints a summary; baseline: 493 passed, 2 failed, 1 collection error
cd /repo && /venv/bin/python -m pytest -q -p no:cacheprovider --timeout=900 -n 12 --continue-on-collection-errors > /tmp/baseline_run.log 2>&1
grep -E "passed|failed" /tmp/baseline_run.log | tail -1
grep -E "^FAILED" /tmp/baseline_run.log | sort
