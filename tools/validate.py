#!/usr/bin/env python3
"""validates MANIFEST.json and evidence/*.json against the schemas in /root/.vp (run with python3-vt)"""
import json, glob, sys, os
import jsonschema
V = os.path.dirname(os.path.dirname(os.path.abspath(__file__)))
ok = True
m = json.load(open(os.path.join(V, "MANIFEST.json")))
try:
    jsonschema.validate(m, json.load(open("/root/.vp/MANIFEST.schema.json")))
    print("MANIFEST ok: %d checks, %d n/a" % (len(m["checks"]), len(m["not_applicable"])))
except jsonschema.ValidationError as e:
    ok = False
    print("MANIFEST INVALID:", e.message[:300])
es = json.load(open("/root/.vp/EVIDENCE.schema.json"))
for p in sorted(glob.glob(os.path.join(V, "evidence", "*.json"))):
    try:
        jsonschema.validate(json.load(open(p)), es)
    except jsonschema.ValidationError as e:
        ok = False
        print(os.path.basename(p), "INVALID:", e.message[:300])
ids = {c["property_id"] for c in m["checks"]} | {n["property_id"] for n in m["not_applicable"]}
props = {json.loads(l)["id"] for l in open(os.path.join(V, "properties.jsonl"))}
if ids != props:
    ok = False
    print("property coverage mismatch", ids ^ props)
for c in m["checks"]:
    if not os.path.exists(os.path.join(V, c["evidence_file"])):
        print("missing evidence", c["evidence_file"])
print("all ok" if ok else "PROBLEMS")
sys.exit(0 if ok else 1)
