#!/bin/sh
# runs every kept seeded change (seeded/<ID>-<V>/patch.diff) against the quick check of its property in a scratch
# worktree and reports whether the check raises a VIOLATION (expected) -- the self-test of the machinery.
cd "$(dirname "$0")/.." || exit 2
rc=0
for d in seeded/*/; do
  n=$(basename "$d"); id=${n%%-*}
  out=$(SEEDTEST_LINES=40 tools/seedtest.sh "$id" "$(pwd)/${d}patch.diff" quick 2>&1)
  if echo "$out" | grep -q "^VIOLATION property=$id"; then echo "caught  $n"; else echo "MISSED  $n"; rc=1; fi
done
exit $rc
