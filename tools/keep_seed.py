#!/usr/bin/env python3
"""tools/keep_seed.py <ID> <A|B> <first_run: caught|missed> "<caught by>" [patch override]
copies a confirmed seeded change into /verif/seeded/<ID>-<V>/ (patch.diff, demo.py, meta.json)"""
import json, os, re, shutil, sys
ID, V, first, caught_by = sys.argv[1:5]
patch = sys.argv[5] if len(sys.argv) > 5 else "/tmp/seed/%s/seed/%s.diff" % (ID, V)
src = "/tmp/seed/%s/seed" % ID
log = open("/root/logs/confirm_%s_%s.log" % (ID, V)).read()
exits = re.findall(r"exit=(\d+)", log)
summ = [l for l in log.split("\n") if re.search(r"\d+ passed", l)]
assert len(exits) >= 2 and exits[0] == "0" and exits[1] != "0", exits
assert summ, "no test summary"
failed = re.findall(r"FAILED (\S+)", log)
extra = [f for f in failed if "test_wasserstein_based_vectorizer_bad_params[lil-LOT_exact" not in f]
retest = None
if extra:
    # a test that hit the per-test time-out on the loaded machine: accepted only if it passed when re-run alone with the change applied
    rl = "/root/logs/retest_%s_%s.log" % (ID, V)
    assert os.path.exists(rl), ("extra failures without a re-run", extra)
    retest = open(rl).read().strip().split("\n")[-1]
    assert len(extra) == 1 and re.search(r"\b1 passed", retest), (extra, retest)
agent = {}
try:
    agent = json.load(open(os.path.join(src, "meta.json"))).get(V, {})
except Exception:
    pass
d = "/verif/seeded/%s-%s" % (ID, V)
os.makedirs(d, exist_ok=True)
shutil.copy(patch, os.path.join(d, "patch.diff"))
shutil.copy(os.path.join(src, "demo_%s.py" % V), os.path.join(d, "demo.py"))
meta = {
    "property": ID,
    "origin": "independent sub-agent given only the property text and its own scratch worktree",
    "summary": agent.get("summary"),
    "needs_to_manifest": agent.get("needs_to_manifest"),
    "files_touched": agent.get("files_touched"),
    "confirmed_by_me": {
        "how": "tools/confirm_seed.sh %s %s: scratch worktree of /repo HEAD; `python seed/demo.py` on the pristine tree, `git apply patch.diff`, demo again, then the whole existing test-suite with the change applied" % (ID, V),
        "demo_exit_pristine": int(exits[0]), "demo_exit_with_change": int(exits[1]),
        "test_suite_with_change": summ[-1].strip(" ="),
        "failures_with_change": failed,
        "note": "the two lil-LOT_exact bad_params tests fail on the pinned tree as well (BASELINE.always_fail)",
        "rerun_of_timed_out_test": ({"test": extra[0], "why": "hit the per-test time-out while 14+ suites shared the machine", "alone_with_change": retest} if extra else None),
    },
    "my_checks": {"first_run": first, "caught_by": caught_by,
                  "how_to_rerun": "tools/seedtest.sh %s seeded/%s-%s/patch.diff quick" % (ID, ID, V)},
}
if patch != "/tmp/seed/%s/seed/%s.diff" % (ID, V):
    meta["note"] = "the agent's patch was re-based by hand onto the repaired tree (a fix: commit had touched the same lines); same change"
json.dump(meta, open(os.path.join(d, "meta.json"), "w"), indent=1)
print("kept", d, meta["confirmed_by_me"]["test_suite_with_change"])
