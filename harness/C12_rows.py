"""C12 -- each output row depends only on its own input item and the fitted model.

Singleton differential: for an arbitrary fitted model and a symbolic batch, the real transform is run on the batch
and on each singleton; row i of the batch result must equal the singleton result (subsumes concatenation,
permutation and duplication of batches).
"""
from harness import cls_ngram, cls_skipgram, C16_lz, cls_rowwise, C08_ot


def cases(tier):
    grid = None
    if tier == "quick":
        grid = [((2,), (1, 1), 1, "exact", False, None), ((3,), (2, 1), 2, "exact", False, None), ((2, 1), (2, 0), 2, "subgrams", False, "excluded")]
    return cls_ngram.ngram_cases(tier, ["C12"], grid) + cls_skipgram.cases(tier, ("C12",)) + C16_lz.cases(tier) + cls_rowwise.cases(tier) + [c for c in C08_ot.cases(tier) if c.name.startswith(("kernel_chunks", "transform_plumbing"))]
