"""C14 -- masking keeps positions; nullifying the mask removes its contribution."""
from harness import cls_cooc, cls_ngram, C15_tree


def cases(tier):
    grid = None
    if tier == "quick":
        grid = [((3,), (2,), 2, "exact", True, "excluded"), ((2, 1), (), 2, "exact", False, "excluded"), ((3,), (), 2, "exact", True, "min_occ")]
    cs = cls_cooc.cases(tier, props=("C14", "C02"), which="mask")
    cs += [c for c in cls_ngram.ngram_cases(tier, ["C14", "C06"], grid) if "prune=None" not in c.name]
    # labelled trees: removed labels contracted away (no mask), kept in place under the mask, mask nullified
    cs += [c for c in C15_tree.cases(tier) if "prune=1" in c.name]
    return cs
