"""C20 -- histogram bins partition the absolute range and every row conserves its events.

Real code: HistogramVectorizer.fit / transform / _vector_transform, find_bin_boundaries, expand_boundaries,
add_outier_bins, utils.flatten.  pandas is replaced by a model of right-closed intervals (Interval, IntervalIndex,
interval_range = equal-width split, cut(...).value_counts() = membership counting); every rule of the model is
exercised by the path witnesses replayed on the real pandas.  Training values, the absolute range and the transform
values are symbolic reals, so "equal to the training minimum / maximum", "equal to a bin edge", "equal to the range
bound" and "far outside" are ordinary paths.
"""
from symx.runner import Case
from symx import loader
from symx.api import *  # noqa
from symx import values
from symx.shims import numpy_shim as np

FUNCS = ["_vectorizers.HistogramVectorizer.fit", "_vectorizers.HistogramVectorizer.transform",
         "_vectorizers.HistogramVectorizer._vector_transform", "_vectorizers.find_bin_boundaries",
         "_vectorizers.expand_boundaries", "_vectorizers.add_outier_bins", "utils.flatten"]

NEG, POS = float("-inf"), float("inf")


def V():
    return loader.load("vectorizers._vectorizers")


def _count(conds):
    c = 0
    for k in conds:
        c = c + (ite(k, 1, 0) if is_sym(k) else (1 if k else 0))
    return c


def _constant_training(exc, inputs):
    """known finding F21: all training values strictly inside the absolute range are equal (zero-width bins)"""
    def f(x):
        return float(str(x).replace("Infinity", "inf")) if x is not None else None
    a0, a1 = [f(v) for v in inputs["absolute_range"]]
    ins = [x for t in inputs["train"] for x in t if a0 < x < a1]
    return isinstance(exc, ValueError) and "unique" in str(exc) and len(set(ins)) == 1


def h_hist(ex, shape, n_comp, strategy, rng, outlier, n_test):
    v = V()
    lo = 0 if strategy == "quantile" else None
    train = [[fresh_real("t%d_%d" % (a, b), lo) for b in range(n)] for a, n in enumerate(shape)]
    register("train", train)
    if rng == "inf":
        a0, a1 = NEG, POS
    elif rng == "lower":
        a0, a1 = fresh_real("range_lo"), POS
    elif rng == "upper":
        a0, a1 = NEG, fresh_real("range_hi")
    else:
        a0, a1 = fresh_real("range_lo"), fresh_real("range_hi")
        assume(a0 < a1)
    register("absolute_range", [a0, a1])
    flat = [x for r in train for x in r]
    inside = [sand(x > a0, x < a1) for x in flat]
    # fit needs at least one training value strictly inside the range (np.min of an empty list otherwise)
    assume(sor(*inside))
    if strategy == "quantile":
        # documented precondition of the quantile strategy (the code warns otherwise): at least two distinct values
        # inside the range, so that at least one bin can be formed
        assume(sor(*[sand(inside[i], inside[j], flat[i] != flat[j]) for i in range(len(flat)) for j in range(i + 1, len(flat))]))
    est = v.HistogramVectorizer(n_components=n_comp, strategy=strategy, absolute_range=(a0, a1), append_outlier_bins=outlier)
    r = call(est.fit, [list(t) for t in train])
    check("fit returns the estimator", r is est)
    bins = est.bin_intervals_.to_list()
    nb = len(bins)
    check("at least one bin", nb >= 1)
    if nb == 0:
        return None
    if strategy == "uniform":
        # n_components equal-width bins (+ an outlier bin on each side the absolute range extends beyond the data)
        check("number of bins", (nb == n_comp) if not outlier else (n_comp <= nb <= n_comp + 2))
    check("first bin starts at the lower end of the absolute range", bins[0].left == a0 if a0 != NEG else bins[0].left == NEG)
    check("last bin ends at the upper end of the absolute range", bins[-1].right == a1 if a1 != POS else bins[-1].right == POS)
    for k in range(nb):
        check("bin %d is not reversed" % k, bins[k].left <= bins[k].right)
    for k in range(nb - 1):
        check("bins %d and %d share their edge (gap-free, non-overlapping)" % (k, k + 1), bins[k].right == bins[k + 1].left)
    test = [[fresh_real("x%d_%d" % (a, b)) for b in range(n_test)] for a in range(2)]
    register("test", test)
    out = call(est.transform, [list(t) for t in test], known_faults=[("F21-constant-training-C20", _constant_training)])
    check("one row per sequence, one column per bin", tuple(out.shape) == (2, nb))
    check("no uninitialised cell", not has_poison(out))
    if tuple(out.shape) != (2, nb) or has_poison(out):
        return None
    for i in range(2):
        in_range = _count([sand(x > a0, x <= a1) for x in test[i]])
        tot = 0
        for k in range(nb):
            tot = tot + out[i, k]
            check("count[%d, %d] = number of the row's values in (left, right]" % (i, k),
                  out[i, k] == _count([sand(x > bins[k].left, x <= bins[k].right) for x in test[i]]))
            check("count[%d, %d] >= 0" % (i, k), out[i, k] >= 0)
        check("row %d total = number of the row's values in (range_lo, range_hi]" % i, tot == in_range)
    return {"edges": [[b.left, b.right] for b in bins], "rows": out}


def cases(tier):
    cs = []
    if tier == "quick":
        grid = [((3,), 2, "uniform", "inf", False, 2), ((2, 1), 3, "uniform", "finite", False, 2),
                ((3,), 2, "uniform", "finite", True, 2), ((2,), 2, "uniform", "lower", True, 2),
                ((3,), 2, "quantile", "inf", False, 2), ((3,), 2, "quantile", "lower", True, 2),
                ((4,), 3, "quantile", "inf", False, 1), ((3,), 2, "uniform", "upper", True, 2)]
    else:
        grid = [(sh, n, st, rg, ob, nt)
                for sh in ((3,), (2, 2), (4,), (5,)) for n in (2, 3, 4) for st in ("uniform", "quantile")
                for rg in ("inf", "finite", "lower", "upper") for ob in (False, True) for nt in (3,)
                if not (st == "quantile" and sum(sh) >= 5 and n == 4)]
    A = ["pandas model: Interval / IntervalIndex right-closed, interval_range = equal-width split, cut().value_counts() = membership counts in index order (validated on the real pandas by the path witnesses)",
         "at least one training value strictly inside the absolute range; quantile: at least two distinct ones (documented by the warning in find_bin_boundaries)",
         "Real arithmetic: rounding of np.linspace / cumsum is outside", "quantile strategy on non-negative training data (as the property states)"]
    for sh, n, st, rg, ob, nt in grid:
        cs.append(Case("histogram[train=%s,n=%d,%s,range=%s,outliers=%s]" % ("+".join(map(str, sh)), n, st, rg, ob), h_hist,
                       dict(shape=sh, n_comp=n, strategy=st, rng=rg, outlier=ob, n_test=nt), replay="C20:replay_hist",
                       witness="C20:witness_hist", functions=FUNCS, assumptions=A, max_witness=6,
                       bounds={"training sequences": list(sh), "n_components": n, "strategy": st, "absolute_range": rg,
                               "append_outlier_bins": ob, "transform": "2 sequences of %d arbitrary reals" % nt}))
    return cs
