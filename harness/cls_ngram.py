"""Class-level harness for NgramVectorizer (serves C01, C02, C06, C12, C14).

Real code: NgramVectorizer.fit / fit_transform / transform / __add__, ngrams_of, preprocess_token_sequences,
construct_token_dictionary_and_frequency, prune_token_dictionary.  Tokens are unconstrained integers: a path fixes
only their equality / order pattern, so 'unseen', 'empty', 'shorter than n' are ordinary feasible paths.
"""
from symx.runner import Case
from symx import loader
from symx.api import *  # noqa
from symx.containers import SymSet, SymDict, sym_eq_expr, sym_eq
from symx.shims import numpy_shim as np

FUNCS = ["ngram_vectorizer.ngrams_of", "ngram_vectorizer.NgramVectorizer.fit", "ngram_vectorizer.NgramVectorizer.transform",
         "ngram_vectorizer.NgramVectorizer.__add__", "preprocessing.preprocess_token_sequences",
         "preprocessing.construct_token_dictionary_and_frequency", "preprocessing.prune_token_dictionary"]

MASK = -7   # a token value that cannot occur in the corpus (tokens are >= 0)


def NG():
    return loader.load("vectorizers.ngram_vectorizer")


def docs_of(prefix, lens):
    return [[fresh_int("%s%d_%d" % (prefix, d, j), 0, None) for j in range(n)] for d, n in enumerate(lens)]


def grams_of(seq, n, behaviour):
    out = []
    for i in range(len(seq)):
        if behaviour == "exact":
            if i + n <= len(seq):
                out.append(tuple(seq[i:i + n]))
        else:
            for j in range(1, n + 1):
                if i + j <= len(seq):
                    out.append(tuple(seq[i:i + j]))
    return out


def kept_sequence(doc, vocab, mask):
    """documented preprocessing: removed tokens are deleted (mask None) or replaced in place by the mask"""
    out = []
    for t in doc:
        if t in vocab:
            out.append(t)
        elif mask is not None:
            out.append(mask)
    return out


def check_counts(name, M, docs, est, n, behaviour, mask, props=()):
    """cell (i, j) = number of occurrences of n-gram j in the kept sequence of document i"""
    vocab = est._token_dictionary_
    cols = est.column_label_dictionary_
    Md = M.toarray()
    conds, uni = [], []
    for i, doc in enumerate(docs):
        seq = kept_sequence(doc, vocab, mask)
        grams = grams_of(seq, n, behaviour)
        for label, j in cols.items():
            lab = label if isinstance(label, tuple) else (label,)
            cnt = 0
            for g in grams:
                if len(g) == len(lab):
                    cnt = cnt + ite(sym_eq_expr(g, lab), 1, 0)
            (uni if (behaviour == "subgrams" and n > 1 and len(lab) == 1) else conds).append(Md[i, j] == cnt)
    check(name, sand(*conds))
    if uni:
        # known finding F19: the 1-gram columns of 'subgrams' mode are never counted (kept separate so that every
        # other cell is still checked; the region is exactly this assertion)
        known = [("F19-subgrams-unigram-columns-" + p, True) for p in props if p in ("C06", "C01")]
        check(name + " [1-gram columns in subgrams mode]", sand(*uni), known=known[:1])


def h_ngram(ex, fit_lens, tr_lens, n, behaviour, masked, pruning, props):
    ng = NG()
    X = docs_of("x", fit_lens)
    Y = docs_of("y", tr_lens)
    register("X", X); register("Y", Y)
    kw = {}
    if pruning == "excluded":
        e = fresh_int("excl", 0, None)
        register("excluded", e)
        kw["excluded_tokens"] = SymSet([e])
    elif pruning == "min_occ":
        kw["min_occurrences"] = 2
    mask = MASK if masked else None
    est = ng.NgramVectorizer(ngram_size=n, ngram_behaviour=behaviour, mask_string=mask, **kw)
    try:
        r = est.fit(X)
    except ValueError as e:
        raise PathAbort()       # e.g. empty vocabulary: documented failure, not a property violation
    except (PathAbort, core.BoundHit, core.Unmodelled):
        raise
    except Exception as e:
        core.EX.fault(e)
        raise PathAbort()
    check("fit returns the estimator itself", r is est)
    M = est._train_matrix
    ncols = len(est.column_label_dictionary_)
    check("fit matrix shape", M.shape == (len(X), ncols))
    if "C06" in props or "C14" in props:
        check_counts("fit_transform cell = n-gram count in the kept/masked sequence", M, X, est, n, behaviour, mask, props)
    if masked and ("C14" in props):
        vd = est._token_dictionary_
        check("the mask is exactly one extra vocabulary entry with the last index",
              (mask in vd) and bool(vd[mask] == len(vd) - 1))
    T0 = call(est.transform, X)
    if "C02" in props:
        ok = T0.shape == M.shape
        check("transform(X) has the shape of fit_transform(X)", ok)
        if ok:
            check("fit(X).transform(X) == fit_transform(X)",
                  sand(*[a == b for a, b in zip(T0.toarray()._flat(), M.toarray()._flat())]))
    if Y:
        T = call(est.transform, Y)
        if "C01" in props:
            check("transform: one row per item, fitted number of columns", T.shape == (len(Y), ncols))
            check_counts("transform cell = count of the fitted n-gram in the item", T, Y, est, n, behaviour, mask, props)
        if "C12" in props:
            for i, y in enumerate(Y):
                T1 = call(est.transform, [y])
                check("row of a batch equals the singleton transform",
                      T1.shape == (1, ncols) and sand(*[a == b for a, b in zip(T.toarray()[i]._flat(), T1.toarray()[0]._flat())]))
        return {"fit": M, "transform": T}
    return {"fit": M}


def h_add(ex, a_lens, b_lens, tr_lens):
    """sum of two unigram models behaves like one fitted on the concatenated corpora"""
    ng = NG()
    A = docs_of("a", a_lens)
    B = docs_of("b", b_lens)
    Y = docs_of("y", tr_lens)
    register("A", A); register("B", B); register("Y", Y)
    va = ng.NgramVectorizer().fit(A)
    vb = ng.NgramVectorizer().fit(B)
    vc = ng.NgramVectorizer().fit(A + B)
    from symx.containers import SymSet
    SymSet.ARBITRARY_ORDER = True       # __add__ enumerates a set of new words: any iteration order must work
    try:
        s = call(lambda: va + vb)
    finally:
        SymSet.ARBITRARY_ORDER = False
    ca, cc = s.column_label_dictionary_, vc.column_label_dictionary_
    check("merged model has the same set of columns as a fit on the concatenated corpora",
          len(ca) == len(cc) and all(k in cc for k in ca.keys()))
    # training matrix: the stack, up to column order
    Ms, Mc = s._train_matrix, vc._train_matrix
    ok = Ms.shape == Mc.shape
    check("merged training matrix shape", ok)
    if ok:
        conds = []
        Md, Mcd = Ms.toarray(), Mc.toarray()
        for label, j in ca.items():
            jc = cc[label]
            for i in range(Ms.shape[0]):
                conds.append(Md[i, j] == Mcd[i, jc])
        check("merged training matrix = stacked matrices up to column order", sand(*conds))
    T = call(s.transform, Y)
    Tc = call(vc.transform, Y)
    ok = T.shape == (len(Y), len(ca))
    check("merged transform shape", ok)
    if ok:
        conds = []
        Td, Tcd = T.toarray(), Tc.toarray()
        for label, j in ca.items():
            jc = cc[label]
            for i in range(len(Y)):
                conds.append(Td[i, j] == Tcd[i, jc])
        check("merged transform counts tokens of both vocabularies", sand(*conds))
    return {"cols": len(ca)}


def h_ngrams_lemma(ex, behaviour):
    """ngrams_of for EVERY sequence length and n-gram size (sizes symbolic, loops replaced by one arbitrary iteration):
    what is appended at position i (and gram length j) is the full in-range slice [i, i + size), it is appended exactly
    when it fits -- so every occurrence of every gram is produced once and nothing is truncated at the end"""
    import ast
    import os
    from harness.C07_plan import _OneIteration
    path = os.path.join(loader.REPO, "vectorizers", "ngram_vectorizer.py")
    tree = ast.parse(open(path).read())
    fdef = [n for n in tree.body if isinstance(n, ast.FunctionDef) and n.name == "ngrams_of"][0]
    fdef.decorator_list = []
    fdef = ast.fix_missing_locations(_OneIteration({}).visit(fdef))
    L = fresh_int("len", 0, 10 ** 6)
    n = fresh_int("ngram_size", 1, 10 ** 6)
    register("len", L); register("ngram_size", n)
    hav = {}
    cuts = []

    class _Seq:
        def __getitem__(self, k):
            cuts.append((k.start, k.stop))
            return ("gram", k.start, k.stop)
    seq = _Seq()

    def _havoc(name, *a):
        lo, hi = (0, a[0]) if len(a) == 1 else (a[0], a[1])
        v = fresh_int("iter_" + name)
        assume(sand(v >= lo, v < hi))
        hav[name] = v
        return v
    ns = {"_havoc": _havoc, "_typed": lambda a, b: b, "len": lambda x: L}
    exec(compile(ast.Module(body=[fdef], type_ignores=[]), path, "exec"), ns)
    assume(L >= 1)
    out = call(ns["ngrams_of"], seq, n, behaviour)
    i = hav["i"]
    size = n if behaviour == "exact" else hav["j"]
    fits = i + size <= L
    check("a gram is appended exactly when it fits", (len(cuts) == 1) == bool(fits) if not is_sym(fits) else True)
    if bool(fits):
        check("the gram that fits is appended", len(cuts) == 1 and len(out) == 1)
        if cuts:
            a, b = cuts[0]
            check("it is the full slice [i, i + size), inside the sequence", sand(a == i, b == i + size, a >= 0, b <= L))
    else:
        check("nothing is appended for a position where the gram does not fit", len(cuts) == 0 and len(out) == 0)
    return None


import symx.core as core  # noqa: E402


def ngram_cases(tier, props, grid=None):
    cs = []
    if grid is None:
        if tier == "quick":
            grid = [((2, 1), (2,), 1, "exact", False, None), ((3,), (1, 1), 2, "exact", False, None),
                    ((3,), (2,), 2, "subgrams", False, None), ((2, 1), (0, 2), 1, "exact", False, "excluded"),
                    ((3,), (2,), 2, "exact", True, "excluded"), ((2, 2), (1,), 1, "exact", False, "min_occ")]
        else:
            grid = [(f, t, n, b, m, p) for f in ((2, 1), (3,), (2, 2), (4,), (1, 0, 3)) for t in ((2,), (1, 1), (0, 3))
                    for n, b in ((1, "exact"), (2, "exact"), (2, "subgrams"), (3, "exact"), (3, "subgrams"))
                    for m, p in ((False, None), (False, "excluded"), (True, "excluded"), (False, "min_occ"), (True, "min_occ"))
                    if sum(f) + sum(t) <= 7]
    for f, t, n, b, m, p in grid:
        cs.append(Case("ngram[fit=%s,tr=%s,n=%d,%s,mask=%d,prune=%s]" % ("+".join(map(str, f)), "+".join(map(str, t)), n, b, m, p),
                       h_ngram, dict(fit_lens=list(f), tr_lens=list(t), n=n, behaviour=b, masked=m, pruning=p, props=props),
                       replay="ngram:replay_ngram", witness="ngram:witness_ngram",
                       bounds={"fit document lengths": list(f), "transform item lengths": list(t), "ngram_size": n, "behaviour": b,
                               "mask_string": "fresh token" if m else None, "pruning": p, "tokens": "unconstrained integers"},
                       functions=FUNCS))
    return cs


def lemma_cases(tier):
    return [Case("ngrams_of_lemma[all sizes,%s]" % b, h_ngrams_lemma, dict(behaviour=b), replay="ngram:replay_ngrams_lemma",
                 functions=["ngram_vectorizer.ngrams_of"], bounds={"len, ngram_size": "symbolic up to 10^6", "iteration": "arbitrary"})
            for b in ("exact", "subgrams")]


def add_cases(tier):
    grid = [((2,), (1,), (2,)), ((1, 1), (2,), (1,)), ((1,), (1, 1), (1,))] if tier == "quick" else \
        [((2,), (2,), (2,)), ((1, 1), (2,), (1,)), ((3,), (2,), (2,)), ((2,), (1, 2), (0, 2)), ((2, 1), (2, 1), (1,)), ((1,), (3,), (1,)), ((1,), (1, 1), (1,)), ((2,), (1, 2), (1,))]
    return [Case("ngram_add[a=%s,b=%s,tr=%s]" % ("+".join(map(str, a)), "+".join(map(str, b)), "+".join(map(str, t))),
                 h_add, dict(a_lens=list(a), b_lens=list(b), tr_lens=list(t)), replay="ngram:replay_add",
                 bounds={"corpus A": list(a), "corpus B": list(b), "transform": list(t)}, functions=FUNCS,
                 shards=16 if sum(a) + sum(b) + sum(t) >= 6 else 1, shard_depth=10)
            for a, b, t in grid]
