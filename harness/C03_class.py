"""C03 class level: TokenCooccurrenceVectorizer end to end against the reference (block order, orientation expansion)."""
from harness import cls_cooc, cls_cooc_family


def cases(tier):
    return cls_cooc.cases(tier, props=("C03",)) + cls_cooc_family.vs_token_cases(tier)
