"""C05 -- the learned vocabulary is exactly the tokens meeting every pruning constraint.

(a) structure (exact arithmetic): the real preprocess_token_sequences / prune_token_dictionary /
    construct_document_frequency on a symbolic corpus with symbolic bounds, against the set comprehension of the
    statement;
(b) rounding (IEEE-754): the real construct_token_dictionary_and_frequency + prune_token_dictionary with the counts
    as bit-vector backed symbolic integers; floats are FloatingPoint terms with numpy's (NEP 50) promotion:
    a token whose count equals min_occurrences / max_occurrences must be kept, and a token with a smaller / larger
    count must be pruned, for every (count, total) pair up to the bound.
"""
from symx.runner import Case
from symx import loader, fp
from symx.api import *  # noqa
from symx.containers import SymSet, SymDict, SymLenList, sym_eq_expr
from symx.shims import numpy_shim as np
import symx.core as core
import types
import z3

FUNCS = ["preprocessing.preprocess_token_sequences", "preprocessing.construct_token_dictionary_and_frequency",
         "preprocessing.construct_document_frequency", "preprocessing.prune_token_dictionary"]


def PP():
    return loader.load("vectorizers.preprocessing")


def h_structure(ex, doc_lens, mode):
    pp = PP()
    docs = [[fresh_int("t%d_%d" % (d, j), 0, None) for j in range(n)] for d, n in enumerate(doc_lens)]
    register("docs", docs)
    flat = [t for d in docs for t in d]
    total = len(flat)
    kw = {}
    lo = hi = dlo = dhi = None
    excl = None
    k = None
    if mode == "occ":
        lo = fresh_int("min_occ", 0, total + 1)
        hi = fresh_int("max_occ", 0, total + 1)
        kw.update(min_occurrences=lo, max_occurrences=hi)
    elif mode == "freq":
        lo = fresh_real("min_freq", 0, 1)
        hi = fresh_real("max_freq", 0, 1)
        kw.update(min_frequency=lo, max_frequency=hi)
    elif mode == "doc":
        dlo = fresh_int("min_doc", 0, len(docs) + 1)
        dhi = fresh_int("max_doc", 0, len(docs) + 1)
        kw.update(min_document_occurrences=dlo, max_document_occurrences=dhi)
    elif mode == "excluded":
        excl = fresh_int("excl", 0, None)
        lo = fresh_int("min_occ", 0, total + 1)
        kw.update(ignored_tokens=SymSet([excl]), min_occurrences=lo)
    elif mode == "topk":
        k = int(fresh_int("k", 1, 3))
        kw.update(max_unique_tokens=k)
    register("params", {"mode": mode, "lo": lo, "hi": hi, "dlo": dlo, "dhi": dhi, "excl": excl, "k": k})
    # frozen copies of the inputs (purity: the documents are not modified)
    seqs, vocab, inv, freqs = call(pp.preprocess_token_sequences, [list(d) for d in docs], None, **kw)
    # ---- oracle: the set comprehension of the statement
    def count(t):
        c = 0
        for u in flat:
            c = c + ite(u == t, 1, 0)
        return c

    def dcount(t):
        c = 0
        for d in docs:
            c = c + ite(sor(*[u == t for u in d]), 1, 0)
        return c

    def meets(t):
        cs = []
        c = count(t)
        if mode in ("occ", "excluded"):
            cs.append(c >= lo)
            if hi is not None:
                cs.append(c <= hi)
        if mode == "freq":
            cs.append(to_real(c) / total >= lo)
            cs.append(to_real(c) / total <= hi)
        if mode == "doc":
            cs.append(dcount(t) >= dlo)
            cs.append(dcount(t) <= dhi)
        if excl is not None:
            cs.append(t != excl)
        return sand(*cs)
    kept = list(vocab.keys())
    if mode != "topk":
        check("every kept token satisfies every constraint", sand(*[meets(t) for t in kept]))
        check("every token satisfying every constraint is kept",
              sand(*[simplies(meets(t), sor(*[t == u for u in kept])) for t in flat]))
    else:
        check("at most max_unique_tokens tokens are kept", len(kept) <= k)
        check("kept tokens come from the corpus", sand(*[sor(*[t == u for u in flat]) for t in kept]))
        dropped_ok = []
        for t in flat:
            is_kept = sor(*[t == u for u in kept])
            for u in kept:
                dropped_ok.append(simplies(snot(is_kept), count(u) >= count(t)))
        check("no kept token is less frequent than a dropped one", sand(*dropped_ok))
    # indices 0..n-1 in sorted token order
    idx = [vocab[t] for t in kept]
    check("indices are 0..n-1", sorted(int(i) for i in idx) == list(range(len(kept))))
    check("indices follow the sorted token order",
          sand(*[simplies(a < b, vocab[a] < vocab[b]) for a in kept for b in kept if a is not b]))
    check("inverse dictionary is the inverse", all(bool(sym_eq_expr(inv[vocab[t]], t)) for t in kept))
    # the re-indexed sequences are the kept tokens in order
    ok = len(seqs) == len(docs)
    check("one re-indexed sequence per document", ok)
    if ok:
        conds = []
        for d, s in zip(docs, seqs):
            want = [vocab[t] for t in d if t in vocab]
            got = s._flat()
            conds.append(len(want) == len(got) and sand(*[a == b for a, b in zip(want, got)]))
        check("sequences are re-indexed kept tokens in order", sand(*conds))
    return {"vocab": [[t, vocab[t]] for t in kept]}


def h_ngram_stage2(ex, doc_lens, mode, cooc=False):
    """second-stage pruning of n-grams with the same bounds (NgramVectorizer, ngram_size = 2): the fitted columns are
    exactly the bigrams of the token-pruned sequences that meet every bound at the n-gram level"""
    ng = loader.load("vectorizers.ngram_vectorizer")
    docs = [[fresh_int("t%d_%d" % (d, j), 0, None) for j in range(n)] for d, n in enumerate(doc_lens)]
    register("docs", docs)
    nd = len(docs)
    kw = {}
    lo = hi = dlo = dhi = None
    if mode == "occ":
        lo = fresh_int("min_occ", 1, 3)
        kw.update(min_occurrences=lo)
    elif mode == "mindoc":
        dlo = fresh_int("min_doc", 1, nd)
        kw.update(min_document_occurrences=dlo)
    elif mode == "maxdoc":
        dhi = fresh_int("max_doc", 1, nd)
        kw.update(max_document_occurrences=dhi)
    elif mode == "docfreq":
        dlo = fresh_int("min_doc", 1, nd)
        kw.update(min_document_frequency=to_real(dlo) / nd)
    register("params", {"mode": mode, "lo": lo, "dlo": dlo, "dhi": dhi})
    est = ng.NgramVectorizer(ngram_size=2, ngram_behaviour="exact", **kw)
    try:
        call(est.fit, [list(d) for d in docs], expected=(ValueError, ZeroDivisionError))
    except (ValueError, ZeroDivisionError):
        # fit refuses corpora on which pruning leaves no token / no n-gram at all (ValueError, or ZeroDivisionError
        # from the occurrence -> frequency conversion with zero n-grams): outside this property's statement
        raise PathAbort()

    def stats(items_per_doc):
        flat = [g for d in items_per_doc for g in d]

        def eq(a, b):
            return sand(*[x == y for x, y in zip(a, b)]) if isinstance(a, tuple) else (a == b)

        def count(t):
            return sum((ite(eq(u, t), 1, 0) for u in flat), 0)

        def dcount(t):
            return sum((ite(sor(*[eq(u, t) for u in d]), 1, 0) for d in items_per_doc), 0)

        def meets(t):
            cs = []
            if lo is not None:
                cs.append(count(t) >= lo)
            if dlo is not None:
                cs.append(dcount(t) >= dlo)
            if dhi is not None:
                cs.append(dcount(t) <= dhi)
            return sand(*cs)
        return flat, meets, eq
    # stage 1 (tokens), then the documented deletion of pruned tokens, then stage 2 (bigrams of what is left)
    _, meets_tok, _ = stats(docs)
    kept_docs = [[t for t in d if bool(meets_tok(t))] for d in docs]
    grams = [[(d[i], d[i + 1]) for i in range(len(d) - 1)] for d in kept_docs]
    flat, meets_gram, eq = stats(grams)
    cols = list(est.column_label_dictionary_.keys())
    check("every fitted n-gram column satisfies every bound at the n-gram level",
          sand(*[sand(sor(*[eq(c, g) for g in flat]) if flat else False, meets_gram(c)) for c in cols]))
    check("every n-gram satisfying every bound has a column",
          sand(*[simplies(meets_gram(g), sor(*[eq(g, c) for c in cols]) if cols else False) for g in flat]))
    idx = [est.column_label_dictionary_[c] for c in cols]
    check("column indices are 0..n-1", sorted(int(i) for i in idx) == list(range(len(cols))))
    return None


def h_rounding(ex, N, mode, rel, nlo=2):
    """IEEE-754: count == bound is kept (rel='eq'); the adjacent count on the wrong side is pruned (rel='adj')"""
    fp.enable("numpy")
    try:
        pp = PP()
        n = int(fresh_int("n", nlo, N))
        c = fp.fresh_bv_int("c", 1, n - 1)
        if rel == "eq":
            m = c
        elif mode == "min":
            m = fp.SIntBV(c.bv + 1)      # bound one above the count: must be pruned
        else:
            assume(c >= 2)
            m = fp.SIntBV(c.bv - 1)      # bound one below the count: must be pruned
        register("n", n); register("c", c); register("m", m)
        ns = types.SimpleNamespace(**{k: getattr(np, k) for k in dir(np) if not k.startswith("__")})
        # one dictionary token with count c among n tokens (the other n - c tokens are not in the dictionary)
        ns.bincount = lambda idx, minlength=0: np.ndarray._from_flat([c], (1,), np.int64, cast=False)
        saved = pp.np
        pp.np = ns
        try:
            seq = SymLenList([0, 1])
            seq._symx_len = n
            d, freq, total = call(pp.construct_token_dictionary_and_frequency, seq, SymDict([(0, 0)]))
            kw = dict(min_frequency=None, max_frequency=None)
            if mode == "min":
                kw["min_occurrences"] = m
            else:
                kw["max_occurrences"] = m
            newd, newf = call(pp.prune_token_dictionary, d, freq, total_tokens=total, **kw)
        finally:
            pp.np = saved
        kept = 0 in newd
        if rel == "eq":
            check("a token occurring exactly the bound is kept", kept)
        elif mode == "min":
            check("a token occurring min_occurrences - 1 times is pruned", not kept)
        else:
            check("a token occurring max_occurrences + 1 times is pruned", not kept)
        return None
    finally:
        fp.disable()


def cases(tier):
    cs = []
    if tier == "quick":
        sgrid = [(d, m) for d in ((2, 1), (3,), (2, 2)) for m in ("occ", "freq", "doc", "excluded", "topk")] + [((1, 1, 2), "doc"), ((3, 1), "topk")]
        N = 32
    else:
        sgrid = [(d, m) for d in ((2, 1), (3,), (2, 2), (1, 1, 2), (4, 1), (3, 2)) for m in ("occ", "freq", "doc", "excluded", "topk")]
        N = 512
    for d, m in sgrid:
        cs.append(Case("structure[docs=%s,%s]" % ("+".join(map(str, d)), m), h_structure, dict(doc_lens=list(d), mode=m),
                       replay="C05:replay_structure",
                       bounds={"document lengths": list(d), "constraints": m, "bounds": "symbolic", "tokens": "unconstrained integers"},
                       functions=FUNCS, shards=8 if sum(d) >= 4 else 1, shard_depth=8))
    ggrid = [((2, 2), "mindoc"), ((2, 1), "maxdoc"), ((3,), "occ"), ((2, 2), "docfreq")] if tier == "quick" else \
        [(d, m) for d in ((2, 2), (3, 2), (2, 1, 2), (4,)) for m in ("occ", "mindoc", "maxdoc", "docfreq")]
    for d, m in ggrid:
        cs.append(Case("ngram_stage2[docs=%s,%s]" % ("+".join(map(str, d)), m), h_ngram_stage2, dict(doc_lens=list(d), mode=m),
                       replay="C05:replay_ngram_stage2", functions=FUNCS + ["ngram_vectorizer.NgramVectorizer.fit"],
                       bounds={"document lengths": list(d), "constraint": m, "bound": "symbolic", "ngram_size": 2},
                       assumptions=["corpora on which fit raises because pruning leaves nothing are outside the statement"],
                       shards=8 if sum(d) >= 4 else 1, shard_depth=8))
    for mode in ("min", "max"):
        for rel in ("eq", "adj"):
            cs.append(Case("rounding[%s,%s,N=%d]" % (mode, rel, N), h_rounding, dict(N=N, mode=mode, rel=rel), replay="C05:replay_rounding",
                           bounds={"total tokens n": "2..%d (case split)" % N, "count c": "1..n-1 symbolic (bit-vector)",
                                   "bound": "equal to the count" if rel == "eq" else "adjacent to the count on the pruning side"},
                           assumptions=["np.bincount is stubbed to return the symbolic counts (c, n-c); numpy NEP-50 promotion model (python float is weak)",
                                        "non-adjacent counts follow from the monotonicity of correctly rounded division (not re-proved)"],
                           stubs=["np.bincount -> symbolic counts"], functions=FUNCS[1:2] + FUNCS[3:], shards=16, shard_depth=1,
                           query_timeout_ms=240000))       # QF_FP queries: 1-10 s each when idle, far more on a loaded machine
    return cs
