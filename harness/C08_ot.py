"""C08 -- Wasserstein embeddings depend only on the measure, not on its encoding (the plumbing the repository owns).

The real WassersteinVectorizer.transform (spmatrix, lil and generator input) runs from a directly constructed fitted
state (reference vectors / distribution / components are symbolic reals) with
  A. the per-row kernels lot_vectors_sparse_internal / lot_vectors_dense_internal replaced by an uninterpreted
     per-row function (equal rows give equal vectors) that records its arguments, and memory_size a SYMBOLIC integer
     (str_to_bytes is stubbed), so the block / chunk loops are explored for every block size:  every row is embedded
     exactly once, in order, from its own CSR segment / list element; the output is [F(row_i) @ components.T]
     whatever the block size; the spherical flag handed to the kernel is (metric == cosine) in every input format, as
     in fit; the weights handed to the sparse kernel are the row normalised to one (so a rescaled row gives the same
     arguments).
  B. the REAL internal kernels and the real chunked_pairwise_distance with only transport_plan uninterpreted
     (plan = U(p, q, cost)): rescaling a row by c > 0 gives the identical embedding, the sparse-matrix and the list
     input carrying the same data give the identical embedding, truncation to max_distribution_size keeps the largest
     weights with their own vectors; the caller's list arrays are not written.
Not decided (LP uniqueness / floating-point SVD, listed in the evidence): invariance under zero-weight padding,
permutation and splitting of support points, preservation of distances under a full-rank SVD.
"""
import z3
from symx.runner import Case
from symx import loader, core
from symx.api import *  # noqa
from symx import values
from symx.shims import numpy_shim as np
from symx.shims import scipy_shim as sp
from symx.shims import numba_shim
from harness.C07_plan import LOT

FUNCS = ["linear_optimal_transport.WassersteinVectorizer.__init__", "linear_optimal_transport.WassersteinVectorizer.transform",
         "linear_optimal_transport.WassersteinVectorizer._get_metric", "linear_optimal_transport._chunks_from_generators",
         "linear_optimal_transport.lot_vectors_sparse_internal", "linear_optimal_transport.lot_vectors_dense_internal",
         "linear_optimal_transport.chunked_pairwise_distance"]


class _Metric:
    def __init__(self, name):
        self.name = name

    def __call__(self, a, b):
        a = [values.to_real(x) for x in np._A(a)._flat()]
        b = [values.to_real(x) for x in np._A(b)._flat()]
        return sum((abs(x - y) * Q(4 + k, 4) for k, (x, y) in enumerate(zip(a, b))), Q(0))


def _setup(lot, metric_name):
    euclid = _Metric("euclidean")
    lot.named_distances = {"cosine": lot.cosine, "euclidean": euclid}
    return lot.cosine if metric_name == "cosine" else euclid


def _fitted(lot, input_method, metric_name, n_ref, dim, n_comp, n_rows):
    kw = {}
    if input_method == "generator":
        kw = dict(generator_vector_dim=dim, generator_n_distributions=n_rows)
    est = lot.WassersteinVectorizer(method="LOT_exact", input_method=input_method, metric=metric_name, memory_size="1k",
                                    max_distribution_size=256, **kw)
    ref = [[fresh_real("ref%d_%d" % (j, k)) for k in range(dim)] for j in range(n_ref)]
    rd = [fresh_real("rd%d" % j) for j in range(n_ref)]
    for x in rd:
        assume(x > 0)
    comp = [[fresh_real("comp%d_%d" % (a, b)) for b in range(n_ref * dim)] for a in range(n_comp)]
    register("reference_vectors", ref); register("reference_distribution", rd); register("components", comp)
    est.reference_vectors_ = np.array(ref, dtype=np.float64)
    est.reference_distribution_ = np.array(rd, dtype=np.float64)
    est.components_ = np.array(comp, dtype=np.float64)
    return est, ref, rd, comp


def _rows(prefix, supports, n_vec):
    """rows[i] = list of (vector index, weight > 0); supports[i] = number of support points of row i"""
    rows = []
    for i, k in enumerate(supports):
        rows.append([(c, fresh_real("%s%d_%d" % (prefix, i, c))) for c in range(k)])
        for _, w in rows[-1]:
            assume(w > 0)
    return rows


def _csr(rows, n_vec, scale=None):
    indptr, idx, dat = [0], [], []
    for i, r in enumerate(rows):
        for c, w in r:
            idx.append(c)
            dat.append(w * scale[i] if scale else w)
        indptr.append(len(idx))
    return sp.csr_matrix((np.array(dat, dtype=np.float64) if dat else np.zeros(0, np.float64), np.array(idx, dtype=np.int32) if idx else np.zeros(0, np.int32),
                          np.array(indptr, dtype=np.int32)), shape=(len(rows), n_vec))


def _row_fn(n_out, key):
    """uninterpreted per-row embedding: same (index, weight) list -> same vector"""
    args = []
    for c, w in key:
        args += [c, w]
    return [values.ufun("LOT%d_%d_%d" % (len(key), n_out, d), *args) if args else Q(0) for d in range(n_out)]


def h_plumbing(ex, input_method, metric_name, supports, n_ref=1, dim=1, n_comp=1):
    ot, lot = LOT()
    metric = _setup(lot, metric_name)
    n_rows = len(supports)
    n_vec = max(supports + [1])
    est, ref, rd, comp = _fitted(lot, input_method, metric_name, n_ref, dim, n_comp, n_rows)
    n_out = n_ref * dim
    mem = fresh_int("memory_size_bytes", 1, 8 * n_out * (n_rows + 2))
    register("memory_size_bytes", mem)
    lot.str_to_bytes = lambda s: mem
    vec = [[fresh_real("v%d_%d" % (c, k)) for k in range(dim)] for c in range(n_vec)]
    register("vectors", vec)
    rows = _rows("w", supports, n_vec)
    register("rows", [[w for _, w in r] for r in rows])
    calls = []

    def sparse_internal(indptr, indices, data, sample_vectors, reference_vectors, reference_distribution, metric=None,
                        max_distribution_size=256, chunk_size=256, spherical_vectors=True):
        ptr = [int(v) if not is_sym(v) else int(core.EX.choose(v.e, "indptr")) for v in indptr._flat()]
        out = []
        for r in range(len(ptr) - 1):
            key = [(int(indices[k]), data[k]) for k in range(ptr[r], ptr[r + 1])]
            out.append(_row_fn(n_out, key))
            calls.append(dict(kind="sparse", key=key, spherical=spherical_vectors, metric=metric, mds=max_distribution_size,
                              ref=reference_vectors, rd=reference_distribution, vectors=sample_vectors))
        return np.array(out, dtype=np.float64) if out else np.zeros((0, n_out), np.float64)

    def dense_internal(sample_vectors, sample_distributions, reference_vectors, reference_distribution, metric=None,
                       max_distribution_size=256, chunk_size=256, spherical_vectors=True):
        out = []
        for r in range(len(sample_distributions)):
            d = sample_distributions[r]
            tot = sum((x for x in d._flat()), Q(0))
            key = [(c, d[c] / tot) for c in range(d.shape[0])]
            out.append(_row_fn(n_out, key))
            calls.append(dict(kind="dense", key=key, spherical=spherical_vectors, metric=metric, mds=max_distribution_size,
                              ref=reference_vectors, rd=reference_distribution, vectors=sample_vectors[r]))
        return np.array(out, dtype=np.float64) if out else np.zeros((0, n_out), np.float64)
    lot.lot_vectors_sparse_internal = sparse_internal
    lot.lot_vectors_dense_internal = dense_internal
    V = np.array(vec, dtype=np.float64)
    if input_method == "spmatrix":
        X = _csr(rows, n_vec)
        res = call(est.transform, X, vectors=V)
    elif input_method == "lil":
        X = [np.array([w for _, w in r], dtype=np.float64) for r in rows]
        vs = [np.array([vec[c] for c, _ in r], dtype=np.float64) for r in rows]
        res = call(est.transform, X, vectors=vs)
    else:
        X = (np.array([w for _, w in r], dtype=np.float64) for r in rows)
        vs = (np.array([vec[c] for c, _ in r], dtype=np.float64) for r in rows)
        res = call(est.transform, X, vectors=vs)
    ok = tuple(res.shape) == (n_rows, n_comp)
    check("one output row per distribution, n_components columns", ok, detail={"shape": list(res.shape)})
    check("every row is embedded exactly once", len(calls) == n_rows, detail={"kernel rows": len(calls)})
    if not ok or len(calls) != n_rows:
        return None
    for i, r in enumerate(rows):
        tot = sum((w for _, w in r), Q(0))
        want_key = [(c, w / tot) for c, w in r]
        got = calls[i]["key"]
        check("kernel call %d sees row %d's own support and its weights normalised to one" % (i, i),
              len(got) == len(want_key) and sand(*[sand(g[0] == k[0], g[1] == k[1]) for g, k in zip(got, want_key)]))
        F = _row_fn(n_out, want_key)
        for a in range(n_comp):
            check("output row %d = F(row %d) @ components.T for every memory_size" % (i, i),
                  res[i, a] == sum((F[d] * comp[a][d] for d in range(n_out)), Q(0)))
        check("row %d: spherical_vectors handed to the kernel is (metric == cosine), as in fit" % i,
              bool(calls[i]["spherical"]) == (metric_name == "cosine"))
        check("row %d: the fitted reference and the requested metric reach the kernel" % i,
              calls[i]["metric"] is metric and calls[i]["ref"] is est.reference_vectors_ and calls[i]["rd"] is est.reference_distribution_)
    return None


def _uplan(lot):
    def transport_plan(p, q, cost, max_iter=100000):
        n, m = p.shape[0], q.shape[0]
        args = list(p._flat()) + list(q._flat()) + list(cost._flat())
        return np.array([[values.ufun("PLAN%d_%d_%d_%d" % (n, m, i, j), *args) for j in range(m)] for i in range(n)], dtype=np.float64)
    lot.transport_plan = transport_plan


def h_measure(ex, variant, supports, n_ref=2, dim=1):
    """real kernels, only the LP solve uninterpreted: re-encodings of the same measure give the identical embedding"""
    ot, lot = LOT()
    metric = _setup(lot, "euclidean")
    _uplan(lot)
    n_rows = len(supports)
    n_vec = max(supports)
    est, ref, rd, comp = _fitted(lot, "spmatrix", "euclidean", n_ref, dim, 1, n_rows)
    est.memory_size = "2G"
    vec = [[fresh_real("v%d_%d" % (c, k)) for k in range(dim)] for c in range(n_vec)]
    register("vectors", vec)
    rows = _rows("w", supports, n_vec)
    register("rows", [[w for _, w in r] for r in rows])
    V = np.array(vec, dtype=np.float64)
    base = call(est.transform, _csr(rows, n_vec), vectors=V)
    if variant == "scale":
        c = [fresh_real("scale%d" % i) for i in range(n_rows)]
        for x in c:
            assume(x > 0)
        register("scale", c)
        other = call(est.transform, _csr(rows, n_vec, c), vectors=V)
        name = "rescaling a row by c > 0 leaves its embedding unchanged"
    elif variant == "lil":
        est2, _, _, _ = est, None, None, None
        est.input_method = "lil"
        X = [np.array([w for _, w in r], dtype=np.float64) for r in rows]
        vs = [np.array([vec[c] for c, _ in r], dtype=np.float64) for r in rows]
        for a in X:
            np.freeze(a, "caller's distribution array")
        for a in vs:
            np.freeze(a, "caller's vector array")
        other = call(est.transform, X, vectors=vs)
        est.input_method = "spmatrix"
        name = "the list input carrying the same data gives the same embedding as the sparse matrix"
    elif variant == "duplicate":
        other = call(est.transform, _csr(rows + rows, n_vec), vectors=V)
        check("equal distributions get equal embeddings (and a longer batch does not change earlier rows)",
              tuple(other.shape) == (2 * n_rows, 1) and sand(*[sand(other[i, 0] == base[i, 0], other[i + n_rows, 0] == base[i, 0]) for i in range(n_rows)]))
        return None
    else:
        raise ValueError(variant)
    check(name, tuple(other.shape) == tuple(base.shape) and sand(*[other[i, 0] == base[i, 0] for i in range(n_rows)]))
    return None


def h_truncate(ex, k, mds):
    """truncation to max_distribution_size keeps the mds largest weights together with their own vectors"""
    ot, lot = LOT()
    metric = _setup(lot, "euclidean")
    calls = []

    def transport_plan(p, q, cost, max_iter=100000):
        calls.append((p.copy(), cost.copy()))
        return np.array([[Q(0)] * q.shape[0] for _ in range(p.shape[0])], dtype=np.float64)
    lot.transport_plan = transport_plan
    w = [fresh_real("w%d" % i) for i in range(k)]
    for a in w:
        assume(a > 0)
    for i in range(k):
        for j in range(i + 1, k):
            assume(w[i] != w[j])          # ties are broken by the (unstable) sort: outside the claim
    vec = [[fresh_real("v%d" % i)] for i in range(k)]
    ref = [[fresh_real("r0")]]
    register("weights", w); register("vectors", vec); register("reference", ref)
    call(lot.lot_vectors_sparse_internal, np.array([0, k], dtype=np.int32), np.array(list(range(k)), dtype=np.int32), np.array(w, dtype=np.float64),
         np.array(vec, dtype=np.float64), np.array(ref, dtype=np.float64), np.array([Q(1)], dtype=np.float64), metric=metric,
         max_distribution_size=mds, chunk_size=256, spherical_vectors=False)
    check("one transport problem per row", len(calls) == 1)
    if len(calls) != 1:
        return None
    p, cost = calls[0]
    m = min(k, mds)
    check("the truncated distribution has min(support, max_distribution_size) points", p.shape[0] == m)
    if p.shape[0] != m:
        return None
    # reference: the m largest weights, renormalised; each kept weight is paired with its own vector (cost row)
    kept = [sand(*[]) for _ in range(k)]
    conds = []
    for a in range(m):
        # p[a] is w[i] / total_kept for some i that is among the m largest, with cost row dist(vec[i], ref)
        opts = []
        for i in range(k):
            larger = sum((ite(w[j] > w[i], 1, 0) for j in range(k) if j != i), 0)
            tot = sum((ite(sum((ite(w[l] > w[j], 1, 0) for l in range(k) if l != j), 0) < m, w[j], Q(0)) for j in range(k)), Q(0))
            opts.append(sand(larger < m, p[a] == w[i] / tot, cost[a, 0] == metric(vec[i], ref[0])))
        conds.append(sor(*opts))
    check("kept points are the largest weights, renormalised, each with its own vector", sand(*conds))
    return None


def h_internal_chunks(ex, variant, n_rows, chunk_size, spherical):
    """the per-row kernels' own chunk loop (chunk_size rows at a time, 256 by default): row i of a batch processed in
    several chunks equals the kernel applied to row i alone -- the clause 'unaffected by chunk sizes', and C12's row
    independence, at the level where the chunk loop lives (the LP solve and the cosine are uninterpreted)"""
    ot, lot = LOT()
    metric = _setup(lot, "euclidean")
    _uplan(lot)
    lot.cosine = lambda a, b: values.ufun("COS", *([values.to_real(x) for x in np._A(a)._flat()] + [values.to_real(x) for x in np._A(b)._flat()]))
    # the spherical geometry helpers are row-wise numerics: uninterpreted per row (equal rows give equal results)
    def l2_normalize(vectors):
        for i in range(vectors.shape[0]):
            row = [values.to_real(x) for x in vectors[i]._flat()]
            for j in range(vectors.shape[1]):
                vectors[i, j] = values.ufun("L2N%d_%d" % (len(row), j), *row)

    def project(euclidean_vectors, sphere_basepoints):
        out = np.zeros(euclidean_vectors.shape, np.float64)
        for i in range(out.shape[0]):
            args = [values.to_real(x) for x in euclidean_vectors[i]._flat()] + [values.to_real(x) for x in sphere_basepoints[i]._flat()]
            for j in range(out.shape[1]):
                out[i, j] = values.ufun("PROJ%d_%d" % (len(args), j), *args)
        return out
    lot.l2_normalize = l2_normalize
    lot.project_to_sphere_tangent_space = project

    class _NP:
        def __getattr__(self, k):
            return getattr(np, k)

        @staticmethod
        def sqrt(x):
            return values.ufun("SQRT", values.to_real(x)) if not isinstance(x, np.ndarray) else np.sqrt(x)
    lot.np = _NP()
    vec = [[fresh_real("v%d" % c)] for c in range(2)]
    ref = [[fresh_real("r0")]]
    assume(ref[0][0] != 0)
    rows = [[fresh_real("w%d_%d" % (i, c)) for c in range(2)] for i in range(n_rows)]
    for r_ in rows:
        for w in r_:
            assume(w > 0)
    register("vectors", vec); register("reference", ref); register("rows", rows)

    def run(rs, cs):
        if variant == "sparse":
            indptr, idx, dat = [0], [], []
            for r_ in rs:
                idx += [0, 1]
                dat += list(r_)
                indptr.append(len(idx))
            return call(lot.lot_vectors_sparse_internal, np.array(indptr, dtype=np.int32), np.array(idx, dtype=np.int32), np.array(dat, dtype=np.float64),
                        np.array(vec, dtype=np.float64), np.array(ref, dtype=np.float64), np.array([Q(1)], dtype=np.float64), metric=metric,
                        max_distribution_size=256, chunk_size=cs, spherical_vectors=spherical)
        sv, sd = numba_shim.typed.List(), numba_shim.typed.List()
        for r_ in rs:
            sv.append(np.array(vec, dtype=np.float64))
            sd.append(np.array(list(r_), dtype=np.float64))
        return call(lot.lot_vectors_dense_internal, sv, sd, np.array(ref, dtype=np.float64), np.array([Q(1)], dtype=np.float64), metric=metric,
                    max_distribution_size=256, chunk_size=cs, spherical_vectors=spherical)
    B = run(rows, chunk_size)
    check("one output row per distribution", tuple(B.shape) == (n_rows, 1))
    for i in range(n_rows):
        S = run([rows[i]], 256)
        check("row %d of a batch processed in chunks of %d equals the kernel applied to row %d alone" % (i, chunk_size, i), B[i, 0] == S[0, 0])
    return None


def cases(tier):
    cs = []
    A = ["fitted state constructed directly (reference vectors / distribution / components are arbitrary symbolic reals, reference masses > 0)",
         "weights of listed support points are > 0", "Real arithmetic"]
    if tier == "quick":
        PG = [("spmatrix", "cosine", [1, 2, 1]), ("spmatrix", "euclidean", [2, 1]), ("lil", "cosine", [1, 2]), ("lil", "euclidean", [2, 1, 1]),
              ("generator", "euclidean", [1, 2]), ("generator", "cosine", [1, 1, 1])]
        MG = [("scale", [2, 1]), ("lil", [2, 1]), ("duplicate", [2])]
        TG = [(3, 2), (2, 2), (3, 1)]
    else:
        PG = [(im, m, s) for im in ("spmatrix", "lil", "generator") for m in ("cosine", "euclidean")
              for s in ([1, 2, 1], [2, 1], [1, 1, 1, 1], [2, 2, 1], [1, 2, 1, 1, 1])]
        MG = [(v, s) for v in ("scale", "lil", "duplicate") for s in ([2, 1], [2], [1, 2, 2], [3])]
        TG = [(3, 2), (2, 2), (3, 1), (4, 2), (4, 3)]
    for im, m, s in PG:
        cs.append(Case("transform_plumbing[%s,%s,rows=%s]" % (im, m, s), h_plumbing, dict(input_method=im, metric_name=m, supports=s),
                       replay="C08:replay_plumbing", functions=FUNCS, assumptions=A, env={"NUMBA_DISABLE_JIT": "1"},
                       stubs=["lot_vectors_sparse_internal / lot_vectors_dense_internal -> uninterpreted per-row function recording its arguments",
                              "str_to_bytes -> symbolic memory size"],
                       bounds={"input_method": im, "metric": m, "support sizes of the rows": s, "memory_size": "symbolic 1 .. 8 * dim * (rows + 2) bytes"}))
    for v, s in MG:
        cs.append(Case("measure_invariance[%s,rows=%s]" % (v, s), h_measure, dict(variant=v, supports=s), replay="C08:replay_measure",
                       functions=FUNCS, assumptions=A, stubs=["transport_plan -> uninterpreted function of (p, q, cost)"], fast_ms=500,
                       bounds={"re-encoding": v, "support sizes of the rows": s, "reference points": 2, "dimension": 1, "metric": "weighted L1 (non-spherical branch)"}))
    CG = [("sparse", 2, 1, True), ("dense", 3, 2, True), ("sparse", 3, 2, False)] if tier == "quick" else \
        [(v, n, c, sph) for v in ("sparse", "dense") for n in (2, 3, 4) for c in (1, 2, 3) for sph in (True, False) if c < n]
    for v, n, c, sph in CG:
        cs.append(Case("kernel_chunks[%s,rows=%d,chunk_size=%d,spherical=%d]" % (v, n, c, int(sph)), h_internal_chunks,
                       dict(variant=v, n_rows=n, chunk_size=c, spherical=sph), replay="C08:replay_chunks", functions=FUNCS, assumptions=A, fast_ms=500,
                       stubs=["transport_plan -> uninterpreted function of (p, q, cost)", "pynndescent cosine -> uninterpreted function"],
                       bounds={"kernel": v, "rows": n, "chunk_size": c, "spherical_vectors": sph, "support": 2, "reference points": 1, "dimension": 1}))
    for k, mds in TG:
        cs.append(Case("truncation[support=%d,max_distribution_size=%d]" % (k, mds), h_truncate, dict(k=k, mds=mds), replay="C08:replay_truncate",
                       functions=FUNCS, assumptions=A + ["pairwise distinct weights (tie order of argsort is outside the claim)"],
                       stubs=["transport_plan -> records its arguments"], env={"NUMBA_DISABLE_JIT": "1"},
                       bounds={"support": k, "max_distribution_size": mds}))
    return cs
