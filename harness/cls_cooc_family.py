"""Class-level harness for the other members of the co-occurrence family: MultiSetCooccurrenceVectorizer,
TimedTokenCooccurrenceVectorizer and NgramCooccurrenceVectorizer (serves C10, C02, C01, C13, C04).

No reference matrix is needed here: the harness runs the real fit_transform / fit / transform on symbolic corpora and
asserts what can be stated without an oracle --
  * memory (C10): the array model's bounds / uninitialised-read / unbound-local monitors are on for every kernel the
    drivers reach (window functions, multiset / timed / n-gram kernels, the accumulator with a 1 kB initial buffer);
  * C02: fit returns self, fit(X).cooccurrences_ == fit_transform(X) == fit(X).transform(X) cell by cell;
  * C01: transform(Y) has the fitted shape;  C13: a second transform(Y) returns the same matrix and the fitted
    vocabulary object is unchanged;  C04: the result does not depend on n_threads / coo_initial_memory
    (differential between two configurations on the same symbolic corpus).
"""
from symx.runner import Case
from symx import loader
from symx.api import *  # noqa
from symx.shims import numpy_shim as np
import symx.core as core

FUNCS = ["multi_token_cooccurence_vectorizer.numba_build_multi_skip_grams", "multi_token_cooccurence_vectorizer.numba_multi_em_cooccurrence_iteration",
         "multi_token_cooccurence_vectorizer.MultiSetCooccurrenceVectorizer._set_coo_sizes", "multi_token_cooccurence_vectorizer.MultiSetCooccurrenceVectorizer._build_coo",
         "multi_token_cooccurence_vectorizer.MultiSetCooccurrenceVectorizer._generate_chunk_boundaries",
         "timed_token_cooccurrence_vectorizer.numba_build_skip_grams", "timed_token_cooccurrence_vectorizer.numba_em_cooccurrence_iteration",
         "ngram_token_cooccurence_vectorizer.numba_build_skip_grams", "ngram_token_cooccurence_vectorizer.numba_em_cooccurrence_iteration",
         "preprocessing.preprocess_multi_token_sequences", "preprocessing.preprocess_timed_token_sequences", "preprocessing.preprocess_token_sequences",
         "_window_kernels.multi_flat_kernel", "_window_kernels.multi_tokens_at_radius", "_window_kernels.timed_geometric_kernel", "_window_kernels.timed_flat_kernel",
         "_window_kernels.ngrams_kernel", "coo_utils.coo_append", "coo_utils.coo_sum_duplicates", "coo_utils.merge_all_sum_duplicates", "coo_utils.em_update_matrix",
         "base_cooccurrence_vectorizer.BaseCooccurrenceVectorizer.fit_transform", "base_cooccurrence_vectorizer.BaseCooccurrenceVectorizer.transform"]


def _cls(kind):
    if kind == "multiset":
        return loader.load("vectorizers.multi_token_cooccurence_vectorizer").MultiSetCooccurrenceVectorizer
    if kind == "timed":
        return loader.load("vectorizers.timed_token_cooccurrence_vectorizer").TimedTokenCooccurrenceVectorizer
    if kind == "ngram":
        return loader.load("vectorizers.ngram_token_cooccurence_vectorizer").NgramCooccurrenceVectorizer
    raise ValueError(kind)


def _corpus(kind, prefix, shape):
    """shape: multiset -> list of documents, each a list of multiset sizes; timed / ngram -> list of document lengths"""
    if kind == "multiset":
        return [[[fresh_int("%s%d_%d_%d" % (prefix, d, m, j), 0, None) for j in range(n)] for m, n in enumerate(doc)]
                for d, doc in enumerate(shape)]
    if kind == "timed":
        docs = []
        for d, n in enumerate(shape):
            t_prev = None
            doc = []
            for j in range(n):
                tok = fresh_int("%s%d_%d" % (prefix, d, j), 0, None)
                t = fresh_real("%st%d_%d" % (prefix, d, j), 0, 1000)
                if t_prev is not None:
                    assume(t >= t_prev)
                t_prev = t
                doc.append((tok, t))
            docs.append(doc)
        return docs
    return [[fresh_int("%s%d_%d" % (prefix, d, j), 0, None) for j in range(n)] for d, n in enumerate(shape)]


def _run(fn, *a):
    try:
        return fn(*a)
    except ValueError as exc:
        # documented refusals (empty vocabulary after pruning, ...) are not part of any claim here
        if "empty" in str(exc) or "No tokens" in str(exc) or "vocabulary" in str(exc):
            raise PathAbort()
        core.EX.fault(exc)
        raise PathAbort()
    except (PathAbort, core.BoundHit, core.Unmodelled):
        raise
    except Exception as exc:
        core.EX.fault(exc)
        raise PathAbort()


def _same(a, b):
    return tuple(a.shape) == tuple(b.shape) and sand(*[x == y for x, y in zip(a.toarray()._flat(), b.toarray()._flat())])


def _tiny_buffers(est, cap):
    """replace the estimator's buffer sizing by a fixed tiny capacity per window, so that the accumulator's flush /
    merge / growth paths run inside the driver loop (the same override is applied to the real estimator in the replay)"""
    def _set(token_sequences):
        est._coo_sizes = np.full(est._n_wide, cap, dtype=np.int64)
    est._set_coo_sizes = _set


def h_family(ex, kind, fit_shape, tr_shape, cfg):
    C = _cls(kind)
    X = _corpus(kind, "x", fit_shape)
    Y = _corpus(kind, "y", tr_shape) if tr_shape else None
    register("X", X)
    register("Y", Y)
    kw = dict(window_radii=cfg.get("radii", 1), window_orientations=cfg.get("orientations", "directional"),
              kernel_functions=cfg.get("kernel", "flat"), normalize_windows=cfg.get("normalize_windows", True),
              n_iter=cfg.get("n_iter", 0), n_threads=cfg.get("n_threads", 1), coo_initial_memory=cfg.get("mem", "0.5 GiB"))
    if cfg.get("mask") is not None:
        kw["mask_string"] = cfg["mask"]
        kw["nullify_mask"] = bool(cfg.get("nullify"))
    if kind == "ngram":
        kw["ngram_size"] = cfg.get("ngram_size", 2)
    if cfg.get("kernel_args") is not None:
        kw["kernel_args"] = cfg["kernel_args"]
    est = C(**kw)
    if cfg.get("cap"):
        _tiny_buffers(est, cfg["cap"])
    M = _run(est.fit_transform, X)
    V = len(est.token_label_dictionary_)
    nb = M.shape[1] // V if V else 0
    # rows are tokens (n-grams for the n-gram vectorizer, whose row count is its own n-gram dictionary), columns are
    # n_blocks blocks of n_vocab token columns
    check("fit_transform: shape (rows, n_vocab * n_blocks)", (kind == "ngram" or M.shape[0] == V) and V * nb == M.shape[1] and nb >= 1)
    check("fit_transform: no NaN / uninitialised cell", not has_nan(M.data) and not has_poison(M.data))
    est2 = C(**kw)
    r = _run(est2.fit, X)
    check("fit returns the estimator itself", r is est2)
    check("fit(X).cooccurrences_ == fit_transform(X)", _same(est2.cooccurrences_, M))
    T0 = _run(est2.transform, X)
    check("fit(X).transform(X) == fit_transform(X)", _same(T0, M))
    if cfg.get("alt"):
        k3 = dict(kw)
        k3.update(cfg["alt"])
        est3 = C(**k3)
        M3 = _run(est3.fit_transform, X)
        check("result independent of n_threads / coo_initial_memory", _same(M3, M))
    out = {"fit": M}
    if Y is not None:
        before = [(k, v) for k, v in est.token_label_dictionary_.items()]
        T = _run(est.transform, Y)
        check("transform: fitted shape", tuple(T.shape) == tuple(M.shape))
        T2 = _run(est.transform, Y)
        check("a repeated transform returns the same matrix", _same(T2, T))
        after = [(k, v) for k, v in est.token_label_dictionary_.items()]
        check("transform leaves the fitted vocabulary unchanged",
              len(before) == len(after) and all(a[0] is b[0] and a[1] == b[1] for a, b in zip(before, after)))
        out["transform"] = T
    return out


def h_vs_token(ex, kind, lens, cfg):
    """C03 for the timed / multiset drivers without a separate oracle: with the flat kernel the timed vectorizer
    (whatever the timestamps) and the multiset vectorizer on singleton multisets must produce exactly the matrix of the
    real TokenCooccurrenceVectorizer -- which C03 checks against the windowed-count definition -- on the same tokens"""
    tc = loader.load("vectorizers.token_cooccurrence_vectorizer")
    C = _cls(kind)
    toks = [[fresh_int("x%d_%d" % (d, j), 0, None) for j in range(n)] for d, n in enumerate(lens)]
    register("tokens", toks)
    if kind == "timed":
        X = []
        times = []
        for d, doc in enumerate(toks):
            prev = None
            row, trow = [], []
            for j, t in enumerate(doc):
                tm = fresh_real("t%d_%d" % (d, j), 0, 1000)
                if prev is not None:
                    assume(tm >= prev)
                prev = tm
                row.append((t, tm))
                trow.append(tm)
            X.append(row)
            times.append(trow)
        register("times", times)
    else:
        X = [[[t] for t in doc] for doc in toks]
    kw = dict(window_radii=cfg.get("radii", 1), window_orientations=cfg.get("orientations", "directional"), kernel_functions="flat",
              normalize_windows=cfg.get("normalize_windows", False))
    a = C(**kw)
    b = tc.TokenCooccurrenceVectorizer(**kw)
    Ma = _run(a.fit_transform, X)
    Mb = _run(b.fit_transform, [list(d) for d in toks])
    check("same vocabulary as TokenCooccurrenceVectorizer", len(a.token_label_dictionary_) == len(b.token_label_dictionary_) and
          all(k in b.token_label_dictionary_ and bool(a.token_label_dictionary_[k] == b.token_label_dictionary_[k]) for k in a.token_label_dictionary_))
    check("flat kernel: same matrix as TokenCooccurrenceVectorizer on the same tokens", _same(Ma, Mb))
    return {"fit": Ma}


def grid(tier):
    G = []
    if tier == "quick":
        G.append(("multiset", [[2, 1]], [[1, 1]], dict(radii=1, orientations="after", normalize_windows=False)))
        G.append(("multiset", [[1, 1], [2]], None, dict(radii=1, orientations="directional", mem="1k", alt=dict(n_threads=2, coo_initial_memory="0.5 GiB"))))
        G.append(("multiset", [[1, 2]], None, dict(radii=1, orientations="before", n_iter=1)))
        G.append(("timed", [3], [2], dict(radii=2, orientations="after", normalize_windows=False)))
        G.append(("timed", [2, 1], None, dict(radii=1, orientations="directional", mem="1k", alt=dict(n_threads=2, coo_initial_memory="0.5 GiB"))))
        G.append(("timed", [3], None, dict(radii=1, orientations="before", n_iter=1)))
        G.append(("ngram", [3], [2], dict(radii=1, orientations="after", normalize_windows=False)))
        G.append(("ngram", [4], None, dict(radii=1, orientations="directional", mem="1k")))
        # tiny accumulator buffers: flush, merge and growth happen inside the driver loop; result vs. default buffers
        G.append(("timed", [4], None, dict(radii=2, orientations="after", normalize_windows=False, cap=3, alt=dict(n_threads=1))))
        G.append(("multiset", [[2, 2]], None, dict(radii=1, orientations="after", normalize_windows=False, cap=3, alt=dict(n_threads=1))))
        G.append(("ngram", [4], None, dict(radii=2, orientations="after", normalize_windows=False, cap=3, alt=dict(n_threads=1))))
    else:
        for kind, shapes in (("multiset", [([[2, 1]], [[1, 1]]), ([[1, 1], [2]], [[2]]), ([[1, 1, 1]], None), ([[2, 2]], [[1]])]),
                             ("timed", [([3], [2]), ([2, 2], [1]), ([4], None)]),
                             ("ngram", [([3], [2]), ([4], [3]), ([2, 3], None)])):
            for f, t in shapes:
                for o in ("after", "before", "directional"):
                    for nw in (False, True):
                        G.append((kind, f, t, dict(radii=1, orientations=o, normalize_windows=nw)))
                G.append((kind, f, t, dict(radii=2, orientations="directional", mem="1k", alt=dict(n_threads=2, coo_initial_memory="0.5 GiB"))))
                G.append((kind, f, None, dict(radii=1, orientations="after", n_iter=1)))
                G.append((kind, f, None, dict(radii=2, orientations="symmetric", n_iter=2)))
                for cap in (2, 3, 4, 5):
                    G.append((kind, f, None, dict(radii=2, orientations="directional", normalize_windows=False, cap=cap, alt=dict(n_threads=1))))
    return G


def vs_token_cases(tier):
    G = [("timed", [3], dict(radii=2, orientations="after")), ("multiset", [3], dict(radii=1, orientations="directional")),
         ("timed", [2, 1], dict(radii=1, orientations="before", normalize_windows=True))] if tier == "quick" else \
        [(k, l, dict(radii=r, orientations=o, normalize_windows=nw)) for k in ("timed", "multiset") for l in ([3], [2, 2], [4]) for r in (1, 2)
         for o in ("after", "before", "directional") for nw in (False, True)]
    return [Case("%s_vs_token[lens=%s,%s]" % (k, l, ",".join("%s=%s" % kv for kv in sorted(c.items()))), h_vs_token, dict(kind=k, lens=l, cfg=c),
                 replay="cooc_family:replay_vs_token", functions=FUNCS, shards=8 if sum(l) >= 4 else 1, shard_depth=8,
                 bounds={"kind": k, "document lengths": l, "configuration": c, "timestamps": "non-decreasing reals", "multisets": "singletons"}) for k, l, c in G]


def cases(tier, memory_only=False):
    cs = []
    for kind, f, t, cfg in grid(tier):
        name = "%s_class[fit=%s,tr=%s,%s]" % (kind, f, t, ",".join("%s=%s" % (k, v) for k, v in sorted(cfg.items())))
        n = sum(sum(d) if isinstance(d, list) else d for d in f) + (sum(sum(d) if isinstance(d, list) else d for d in t) if t else 0)
        cs.append(Case(name, h_family, dict(kind=kind, fit_shape=f, tr_shape=t, cfg=cfg), replay="cooc_family:replay_family",
                       witness="cooc_family:witness_family", functions=FUNCS, max_witness=8,
                       bounds={"kind": kind, "fit corpus shape": f, "transform corpus shape": t, "configuration": cfg,
                               "tokens": "unconstrained integers", "timestamps": "non-decreasing reals in [0, 1000]"},
                       shards=8 if n >= 5 else 1, shard_depth=8, env={"NUMBA_BOUNDSCHECK": "1"}))
    return cs
