"""C09 -- byte-pair encodings are lossless, reproducible and within the vocabulary budget.

(a) contraction step: contract_pair / contract_and_count_pairs on arbitrary code arrays (length 0..L);
(b) end to end: BytePairEncodingVectorizer.fit_transform / transform on symbolic strings (all three return types).
"""
import itertools
from symx.runner import Case
from symx import loader
from symx.api import *  # noqa
from symx.containers import SymStr, SymDict, sym_eq_expr
from symx.shims import numpy_shim as np
from symx.shims import numba_shim

FUNCS = ["mixed_gram_vectorizer.contract_pair", "mixed_gram_vectorizer.contract_and_count_pairs",
         "mixed_gram_vectorizer.count_pairs", "mixed_gram_vectorizer.pruning_max_freq_pair",
         "mixed_gram_vectorizer.pair_length", "mixed_gram_vectorizer.bpe_train", "mixed_gram_vectorizer.bpe_encode",
         "mixed_gram_vectorizer.bpe_encode_all", "mixed_gram_vectorizer.BytePairEncodingVectorizer.fit_transform",
         "mixed_gram_vectorizer.BytePairEncodingVectorizer.transform"]


def MG():
    return loader.load("vectorizers.mixed_gram_vectorizer")


def h_contract(ex, L):
    """expanding new_code -> (a, b) in contract_pair(x) gives x back; both contraction kernels agree"""
    mg = MG()
    x = int_array("c", L, 0, None, dtype=np.int64)
    a, b = fresh_int("a", 0), fresh_int("b", 0)
    new = fresh_int("new", 0)
    assume(sand(*[v != new for v in x._flat()]))
    assume(sand(new != a, new != b))
    register("x", x.copy()); register("pair", [a, b]); register("new", new)
    np.freeze(x, "x")
    y = call(mg.contract_pair, x, (a, b), new)
    check("no uninitialised output", not has_poison(y))
    # expansion
    ys = y._flat()
    exp_len = 0
    for v in ys:
        exp_len = exp_len + ite(v == new, 2, 1)
    check("expanded length equals input length", exp_len == L)
    # walk: positions are concrete on this path once we decide which outputs are the new code
    out = []
    for v in ys:
        if v == new:
            out.extend([a, b])
        else:
            out.append(v)
    ok = len(out) == L
    check("expanded length (path)", ok)
    if ok:
        check("contract_pair is lossless (expansion reproduces the input)", sand(*[out[i] == x[i] for i in range(L)]))
    counts = call(mg.count_pairs, numba_shim.typed.List([x.copy()]))
    y2, _ = call(mg.contract_and_count_pairs, x, (a, b), counts, new)
    ok = y2.shape[0] == y.shape[0]
    check("contract_and_count_pairs and contract_pair produce the same length", ok)
    if ok:
        check("contract_and_count_pairs and contract_pair produce the same codes", sand(*[p == q for p, q in zip(y2._flat(), ys)]))
    return {"y": y}


def _expand(code, code_list, mcc):
    """code points of a code (list), following the learned pair list"""
    if code <= mcc:
        return [code]
    k = code - mcc - 1
    k = int(k)
    if k < 0 or k >= len(code_list):
        raise IndexError("code %r outside the learned code list" % (code,))
    p = code_list[k]
    return _expand(p[0], code_list, mcc) + _expand(p[1], code_list, mcc)


def _decode(enc, code_list, mcc):
    out = []
    for c in enc._flat() if hasattr(enc, "_flat") else enc:
        out.extend(_expand(c, code_list, mcc))
    return out


def _strings(prefix, lens, lo=1, hi=1000):
    out = []
    for i, n in enumerate(lens):
        out.append(SymStr([fresh_int("%s%d_%d" % (prefix, i, j), lo, hi) for j in range(n)]))
    return out


def h_bpe_e2e(ex, fit_lens, tr_lens, max_vocab_size, min_occ, mcc_mode):
    mg = MG()
    X = _strings("s", fit_lens)
    Y = _strings("u", tr_lens)
    register("X", X); register("Y", Y)
    if mcc_mode == "zero":
        mcc_in = 0
    else:
        mcc_in = fresh_int("mcc", 0, 1000)
    register("max_char_code", mcc_in)
    V = mg.BytePairEncodingVectorizer
    est = V(max_vocab_size=max_vocab_size, min_token_occurrence=min_occ, return_type="sequences", max_char_code=mcc_in)
    enc = call(est.fit_transform, list(X))
    mcc = est.max_char_code_
    cl = list(est.code_list_)
    toks = list(est.tokens_)
    check("at most max_vocab_size tokens are learned", len(toks) <= max_vocab_size)
    check("tokens_ and code_list_ have equal length", len(toks) == len(cl))
    check("one encoding per training string", len(enc) == len(X))
    check("no uninitialised encodings", not has_poison(list(enc)))
    # every learned token is the concatenation of its pair
    for k in range(len(cl)):
        pts = call(_expand, mcc + 1 + k, cl, mcc)
        check("token %d is the concatenation of its pair" % k, sym_eq_expr(SymStr(pts), toks[k]))
    for i, s in enumerate(X):
        dec = call(_decode, enc[i], cl, mcc)
        check("fit_transform encoding decodes to the training string", sym_eq_expr(SymStr(dec), s))
    enc2 = call(est.transform, list(X))
    for i in range(len(X)):
        a, b = enc[i]._flat(), enc2[i]._flat()
        check("transform re-encodes training string %d exactly as fit_transform" % i,
              len(a) == len(b) and sand(*[p == q for p, q in zip(a, b)]))
    if Y:
        encY = call(est.transform, list(Y))
        check("one encoding per transform string", len(encY) == len(Y))
        for i, s in enumerate(Y):
            dec = call(_decode, encY[i], cl, mcc)
            want = [ite(c <= mcc, c, 0) for c in s.cp]
            check("transform encoding decodes to the string (chars above max_char_code_ -> 0)",
                  len(dec) == len(want) and sand(*[p == q for p, q in zip(dec, want)]))
        # other return types are views of the sequences output
        est.return_type = "tokens"
        tk = call(est.transform, list(Y))
        for i in range(len(Y)):
            row = encY[i]._flat()
            ok = len(tk[i]) == len(row)
            check("'tokens' output has one token per code", ok)
            if ok:
                for c, t in zip(row, tk[i]):
                    check("'tokens' output is the token string of each code",
                          sym_eq_expr(SymStr(_expand(c, cl, mcc)) if bool(c > mcc) else SymStr([c]), t))
    return {"enc": [e for e in enc], "n_tokens": len(toks)}


def h_bpe_matrix(ex, fit_lens, tr_lens, max_vocab_size):
    """return_type='matrix': code counts; transform keeps the fitted width and ignores unseen codes"""
    mg = MG()
    X = _strings("s", fit_lens)
    Y = _strings("u", tr_lens)
    register("X", X); register("Y", Y)
    V = mg.BytePairEncodingVectorizer
    seq = V(max_vocab_size=max_vocab_size, return_type="sequences")
    enc = call(seq.fit_transform, list(X))
    est = V(max_vocab_size=max_vocab_size, return_type="matrix")
    M = call(est.fit_transform, list(X))
    cols = est.column_label_dictionary_
    width = len(cols)
    check("fit_transform matrix shape", M.shape == (len(X), width))
    Md = M.toarray()
    for i in range(len(X)):
        for code, j in cols.items():
            cnt = 0
            for c in enc[i]._flat():
                cnt = cnt + ite(c == code, 1, 0)
            check("matrix cell = count of the code in the sequence output", Md[i, j] == cnt)
    T = call(est.transform, list(Y))
    encY = call(seq.transform, list(Y))
    check("transform matrix: one row per string, fitted width", T.shape == (len(Y), width))
    Td = T.toarray()
    if T.shape == (len(Y), width):
        for i in range(len(Y)):
            for code, j in cols.items():
                cnt = 0
                for c in encY[i]._flat():
                    cnt = cnt + ite(c == code, 1, 0)
                check("transform matrix cell = count of the fitted code", Td[i, j] == cnt)
    return {"shape": list(T.shape)}


def cases(tier):
    cs = []
    Ls = range(0, 5) if tier == "quick" else range(0, 8)
    for L in Ls:
        cs.append(Case("contract[L=%d]" % L, h_contract, dict(L=L), replay="C09:replay_contract", witness="C09:witness_contract",
                       bounds={"array length": L, "codes": "unbounded >= 0", "new code": "not occurring in the array"},
                       functions=FUNCS[:3]))
    if tier == "quick":
        grid = [((1,), (1,), 2, 1, "zero"), ((2,), (0, 1), 1, 1, "zero"), ((0, 1), (2,), 2, 1, "sym"), ((4,), (2,), 2, 1, "zero"),
                ((2, 2), (2,), 2, 1, "zero"), ((3, 1), (3,), 1, 2, "sym"), ((4,), (), 3, 1, "zero"), ((2, 3), (1,), 2, 1, "zero")]
        mgrid = [((2,), (2,), 1), ((2, 1), (1, 1), 2), ((3,), (0, 2), 1)]
    else:
        grid = [(f, t, v, m, mm) for f in ((1,), (0, 2), (4,), (2, 2), (3, 2), (5,), (2, 2, 2), (6,), (1, 1), (4, 2))
                for t in ((), (1,), (3,)) for v, m in ((1, 1), (2, 1), (3, 1), (2, 2)) for mm in ("zero", "sym")]
        grid = [g for g in grid if sum(g[0]) + sum(g[1]) <= 7]
        mgrid = [((2,), (2,), 1), ((2, 2), (1, 2), 2), ((3,), (0, 2), 1), ((4,), (3,), 2), ((2, 2), (0, 3), 2)]
    for f, t, v, m, mm in grid:
        cs.append(Case("bpe_e2e[fit=%s,tr=%s,vocab=%d,minocc=%d,mcc=%s]" % ("+".join(map(str, f)), "+".join(map(str, t)) or "-", v, m, mm),
                       h_bpe_e2e, dict(fit_lens=list(f), tr_lens=list(t), max_vocab_size=v, min_occ=m, mcc_mode=mm),
                       replay="C09:replay_e2e",
                       bounds={"training string lengths": list(f), "transform string lengths": list(t), "max_vocab_size": v,
                               "min_token_occurrence": m, "max_char_code": "0" if mm == "zero" else "symbolic 0..1000",
                               "characters": "code points 1..1000, unconstrained"},
                       functions=FUNCS))
    for f, t, v in mgrid:
        cs.append(Case("bpe_matrix[fit=%s,tr=%s,vocab=%d]" % ("+".join(map(str, f)), "+".join(map(str, t)), v),
                       h_bpe_matrix, dict(fit_lens=list(f), tr_lens=list(t), max_vocab_size=v), replay="C09:replay_matrix",
                       bounds={"training string lengths": list(f), "transform string lengths": list(t), "max_vocab_size": v},
                       functions=FUNCS))
    return cs
