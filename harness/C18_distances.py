"""C18 -- distances: finite, symmetric, zero on proportional inputs; sparse = dense.

Real code executed symbolically: every function of vectorizers/distances.py.
"""
import itertools
from symx.runner import Case
from symx import loader
from symx.api import *  # noqa
from symx.values import slog
from symx.shims import numpy_shim as np

FUNCS = ["distances.hellinger", "distances.kantorovich1d", "distances.total_variation",
         "distances.jensen_shannon_divergence", "distances.symmetric_kl_divergence", "distances.arr_unique",
         "distances.arr_union", "distances.arr_intersect", "distances.sparse_sum", "distances.sparse_diff",
         "distances.sparse_mul", "distances.dense_union", "distances.sparse_hellinger",
         "distances.sparse_total_variation", "distances.sparse_jensen_shannon_divergence",
         "distances.sparse_symmetric_kl_divergence"]


def D():
    return loader.load("vectorizers.distances")


def dense_at(ind, data, k):
    """value of the sparse vector (ind, data) at index k, as a non-forking symbolic term"""
    t = Q(0)
    for i in range(ind.shape[0]):
        c = ind[i] == k
        if c is True:
            t = t + to_real(data[i])
        elif c is not False:
            t = t + ite(c, to_real(data[i]), Q(0))
    return t


def _sparse_inputs(n1, n2, nonneg=False, idx_hi=None, concrete_idx=False):
    ind1 = int_array("i", n1, 0, idx_hi, dtype=np.int32, increasing=True)
    ind2 = int_array("j", n2, 0, idx_hi, dtype=np.int32, increasing=True)
    if concrete_idx:   # case-split on the index values (bounded range): the dense vectors then have plain entries
        ind1 = np.array([int(v) for v in ind1._flat()], dtype=np.int32) if n1 else ind1
        ind2 = np.array([int(v) for v in ind2._flat()], dtype=np.int32) if n2 else ind2
    d1 = real_array("a", n1, 0 if nonneg else None, dtype=np.float32)
    d2 = real_array("b", n2, 0 if nonneg else None, dtype=np.float32)
    register("ind1", ind1.copy()); register("data1", d1.copy())
    register("ind2", ind2.copy()); register("data2", d2.copy())
    for a, nm in ((ind1, "ind1"), (ind2, "ind2"), (d1, "data1"), (d2, "data2")):
        np.freeze(a, nm)
    return ind1, d1, ind2, d2


def h_sparse_op(ex, n1, n2, op):
    """sparse_sum / sparse_diff / sparse_mul agree with dense arithmetic in indices and values;
    inputs are never written (the result index array may alias an input through arr_union)."""
    d = D()
    ind1, d1, ind2, d2 = _sparse_inputs(n1, n2)
    fn = getattr(d, "sparse_" + op)
    ri, rd = call(fn, ind1, d1, ind2, d2)
    check("result arrays have equal length", ri.shape[0] == rd.shape[0])
    check("no uninitialised output", not has_poison(ri) and not has_poison(rd))

    def expect(k):
        a, b = dense_at(ind1, d1, k), dense_at(ind2, d2, k)
        return {"sum": a + b, "diff": a - b, "mul": a * b}[op]
    conds = []
    for j in range(ri.shape[0]):
        conds.append(rd[j] == expect(ri[j]))
        conds.append(rd[j] != 0)
        if j:
            conds.append(ri[j - 1] < ri[j])
    check("sparse_%s values/indices equal dense arithmetic" % op, sand(*conds))
    comp = []
    for src in (ind1, ind2):
        for i in range(src.shape[0]):
            k = src[i]
            comp.append(simplies(expect(k) != 0, sor(*[ri[j] == k for j in range(ri.shape[0])])))
    check("sparse_%s result contains every non-zero coordinate" % op, sand(*comp))
    return {"ind": ri, "data": rd}


def h_set_helpers(ex, n1, n2):
    d = D()
    a = int_array("p", n1, 0, None, dtype=np.int32)
    b = int_array("q", n2, 0, None, dtype=np.int32)
    register("ar1", a.copy()); register("ar2", b.copy())
    np.freeze(a, "ar1"); np.freeze(b, "ar2")
    if n1 >= 1:   # arr_unique is only reached with a non-empty concatenation (arr_union handles the empty sides)
        u = call(d.arr_unique, a)
        conds = [u[j - 1] < u[j] for j in range(1, u.shape[0])]
        for i in range(n1):
            conds.append(sor(*[u[j] == a[i] for j in range(u.shape[0])]))
        for j in range(u.shape[0]):
            conds.append(sor(*[u[j] == a[i] for i in range(n1)]))
        check("arr_unique = sorted set of elements", sand(*conds))
    else:
        u = a
    # union / intersect are specified for sorted, duplicate-free inputs (sparse index arrays)
    assume(sand(*[a[i - 1] < a[i] for i in range(1, n1)]))
    assume(sand(*[b[i - 1] < b[i] for i in range(1, n2)]))
    un = call(d.arr_union, a, b)
    conds = [un[j - 1] < un[j] for j in range(1, un.shape[0])]
    for src, n in ((a, n1), (b, n2)):
        for i in range(n):
            conds.append(sor(*[un[j] == src[i] for j in range(un.shape[0])]))
    for j in range(un.shape[0]):
        conds.append(sor(*([un[j] == a[i] for i in range(n1)] + [un[j] == b[i] for i in range(n2)])))
    check("arr_union = sorted union", sand(*conds))
    it = call(d.arr_intersect, a, b)
    conds = [it[j - 1] < it[j] for j in range(1, it.shape[0])]
    for j in range(it.shape[0]):
        conds.append(sand(sor(*[it[j] == a[i] for i in range(n1)]), sor(*[it[j] == b[i] for i in range(n2)])))
    for i in range(n1):
        conds.append(simplies(sor(*[a[i] == b[k] for k in range(n2)]), sor(*[it[j] == a[i] for j in range(it.shape[0])])))
    check("arr_intersect = sorted intersection", sand(*conds))
    return {"unique": u, "union": un, "intersect": it}


def h_dense_union(ex, n1, n2):
    d = D()
    ind1, d1, ind2, d2 = _sparse_inputs(n1, n2, nonneg=True)
    r1, r2 = call(d.dense_union, ind1, d1, ind2, d2)
    check("dense_union lengths", r1.shape[0] == r2.shape[0])
    # the pair of dense vectors lists, in index order, the coordinates where either input is non-zero
    exp = []
    i1 = i2 = 0
    while i1 < n1 or i2 < n2:
        if i2 >= n2 or (i1 < n1 and bool(ind1[i1] < ind2[i2])):
            exp.append((d1[i1], Q(0))); i1 += 1
        elif i1 >= n1 or bool(ind2[i2] < ind1[i1]):
            exp.append((Q(0), d2[i2])); i2 += 1
        else:
            exp.append((d1[i1], d2[i2])); i1 += 1; i2 += 1
    exp = [(a, b) for a, b in exp if bool(a + b != 0)]
    ok = len(exp) == r1.shape[0]
    check("dense_union keeps exactly the non-zero coordinates", ok)
    if ok:
        check("dense_union values", sand(*[sand(r1[j] == exp[j][0], r2[j] == exp[j][1]) for j in range(len(exp))]))
    return {"d1": r1, "d2": r2}


def _vec(name, n):
    return real_array(name, n, 0, dtype=np.float64)


def _mass(v):
    return np._sumlist(v._flat())


def h_dense_basic(ex, dim, fname):
    """finite / non-negative / range / symmetric / zero on proportional inputs; inputs not written"""
    d = D()
    x, y = _vec("x", dim), _vec("y", dim)
    register("x", x.copy()); register("y", y.copy())
    assume(_mass(x) > 0); assume(_mass(y) > 0)
    np.freeze(x, "x"); np.freeze(y, "y")
    f = getattr(d, fname)
    r = call(f, x, y)
    check("%s never NaN" % fname, not has_nan(r))
    r2 = call(f, y, x)
    check("%s symmetric" % fname, r == r2)
    if fname in ("hellinger", "total_variation", "kantorovich1d"):
        check("%s >= 0" % fname, r >= 0)
    if fname in ("hellinger", "total_variation"):
        check("%s <= 1" % fname, r <= 1)
    return {"value": r}


def h_dense_proportional(ex, dim, fname):
    d = D()
    x = _vec("x", dim)
    k = fresh_real("k", None, None)
    assume(k > 0)
    assume(_mass(x) > 0)
    y = x * k
    register("x", x.copy()); register("y", y.copy())
    f = getattr(d, fname)
    r = call(f, x, y)
    check("%s never NaN on proportional inputs" % fname, not has_nan(r))
    check("%s vanishes on proportional inputs" % fname, r == 0)
    return {"value": r}


def h_equal_inputs_log(ex, dim, fname):
    """JS / symmetric KL vanish on equal inputs; log is uninterpreted with the axiom log(1) = 0"""
    d = D()
    x = _vec("x", dim)
    assume(_mass(x) > 0)
    register("x", x.copy()); register("y", x.copy())
    one = slog(fresh_real("one", 1, 1))
    assume(one == 0)
    r = call(getattr(d, fname), x, x.copy())
    check("%s never NaN" % fname, not has_nan(r))
    check("%s(x, x) = 0" % fname, r == 0)
    return {"value": r}


def h_triangle(ex, dim, fname):
    d = D()
    x, y, z = _vec("x", dim), _vec("y", dim), _vec("z", dim)
    for v, nm in ((x, "x"), (y, "y"), (z, "z")):
        register(nm, v.copy())
        assume(_mass(v) > 0)
    f = getattr(d, fname)
    a, b, c = call(f, x, z), call(f, x, y), call(f, y, z)
    check("%s triangle inequality" % fname, a <= b + c)
    return {"xz": a, "xy": b, "yz": c}


def _scatter(ind, data, support):
    return np.array([dense_at(ind, data, k) for k in support], dtype=np.float64) if support else np.zeros(0)


def h_sparse_vs_dense(ex, n1, n2, fname):
    """sparse_<f>(ind1, data1, ind2, data2) == <f>(dense x, dense y) on the scattered vectors"""
    d = D()
    ind1, d1, ind2, d2 = _sparse_inputs(n1, n2, nonneg=True, idx_hi=3, concrete_idx=True)
    assume(_mass(d1) > 0); assume(_mass(d2) > 0)
    # dense support: all coordinates 0..3 (indices bounded by 3)
    support = list(range(4))
    x, y = _scatter(ind1, d1, support), _scatter(ind2, d2, support)
    sf = getattr(d, "sparse_" + fname)
    df = getattr(d, fname)
    rs = call(sf, ind1, d1, ind2, d2)
    rd = call(df, x, y)
    check("sparse_%s never NaN" % fname, not has_nan(rs))
    check("sparse_%s == dense %s" % (fname, fname), rs == rd)
    return {"sparse": rs, "dense": rd}


def h_sparse_log_vs_dense(ex, n1, n2, fname):
    """sparse JS / KL = dense JS / KL on the union-supported vectors (what the code documents)"""
    d = D()
    ind1, d1, ind2, d2 = _sparse_inputs(n1, n2, nonneg=True, idx_hi=3, concrete_idx=True)
    assume(_mass(d1) > 0); assume(_mass(d2) > 0)
    assume(sand(*[v > 0 for v in d1._flat()] + [v > 0 for v in d2._flat()]))
    un = call(d.arr_union, ind1.copy(), ind2.copy())
    support = un._flat()
    x, y = _scatter(ind1, d1, support), _scatter(ind2, d2, support)
    rs = call(getattr(d, "sparse_" + fname), ind1, d1, ind2, d2)
    rd = call(getattr(d, fname), x, y)
    check("sparse_%s == dense on union support" % fname, rs == rd)
    return {"sparse": rs}


def cases(tier):
    L = 2 if tier == "quick" else 3
    cs = []
    for n1, n2 in itertools.product(range(L + 1), repeat=2):
        for op in ("sum", "diff", "mul"):
            cs.append(Case("sparse_%s[%d,%d]" % (op, n1, n2), h_sparse_op, dict(n1=n1, n2=n2, op=op),
                           replay="C18:replay_sparse_op", witness="C18:witness_sparse_op",
                           bounds={"len(ind1)": n1, "len(ind2)": n2, "indices": "strictly increasing, unbounded", "data": "any reals"},
                           functions=FUNCS))
        cs.append(Case("dense_union[%d,%d]" % (n1, n2), h_dense_union, dict(n1=n1, n2=n2), replay="C18:replay_dense_union",
                       bounds={"len(ind1)": n1, "len(ind2)": n2}))
        cs.append(Case("set_helpers[%d,%d]" % (n1, n2), h_set_helpers, dict(n1=n1, n2=n2), replay="C18:replay_set_helpers",
                       bounds={"len(ar1)": n1, "len(ar2)": n2}))
    dims = (1, 2) if tier == "quick" else (1, 2, 3)
    for dim in dims:
        for f in ("hellinger", "total_variation", "kantorovich1d", "jensen_shannon_divergence", "symmetric_kl_divergence"):
            if f == "hellinger" and dim > 1:
                continue   # non-linear (Cauchy-Schwarz under square roots): z3 answers unknown; see uncovered
            cs.append(Case("basic[%s,%d]" % (f, dim), h_dense_basic, dict(dim=dim, fname=f), replay="C18:replay_dense",
                           bounds={"dim": dim, "entries": ">= 0 reals, positive mass"},
                           assumptions=["Real arithmetic: sqrt is exact (s>=0, s*s=x); log is an uninterpreted function"]))
        for f in ("hellinger", "total_variation", "kantorovich1d"):
            cs.append(Case("proportional[%s,%d]" % (f, dim), h_dense_proportional, dict(dim=dim, fname=f),
                           replay="C18:replay_dense", bounds={"dim": dim, "y": "k*x, k>0"}))
        for f in ("jensen_shannon_divergence", "symmetric_kl_divergence"):
            cs.append(Case("equal[%s,%d]" % (f, dim), h_equal_inputs_log, dict(dim=dim, fname=f), replay="C18:replay_dense",
                           bounds={"dim": dim}, assumptions=["axiom log(1) = 0"]))
        for f in ("total_variation", "kantorovich1d"):
            cs.append(Case("triangle[%s,%d]" % (f, dim), h_triangle, dict(dim=dim, fname=f), replay="C18:replay_triangle",
                           bounds={"dim": dim}))
    S = 2 if tier == "quick" else 3
    for n1, n2 in itertools.product(range(1, S + 1), repeat=2):
        for f in ("hellinger", "total_variation"):
            if f == "hellinger" and ((n1, n2) != (1, 1) if tier == "quick" else n1 + n2 > 3):
                continue   # Cauchy-Schwarz under square roots: z3 answers unknown beyond these sizes
            cs.append(Case("sparse_vs_dense[%s,%d,%d]" % (f, n1, n2), h_sparse_vs_dense, dict(n1=n1, n2=n2, fname=f),
                           replay="C18:replay_sparse_vs_dense", bounds={"len1": n1, "len2": n2, "indices": "0..3"}))
        for f in ("jensen_shannon_divergence", "symmetric_kl_divergence"):
            cs.append(Case("sparse_vs_dense_union[%s,%d,%d]" % (f, n1, n2), h_sparse_log_vs_dense, dict(n1=n1, n2=n2, fname=f),
                           replay="C18:replay_sparse_vs_dense", bounds={"len1": n1, "len2": n2}))
    return cs
