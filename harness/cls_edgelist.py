"""Class-level harness for EdgeListVectorizer (serves C01, C02, C06)."""
from symx.runner import Case
from symx import loader
from symx.api import *  # noqa
from symx.containers import SymDict, sym_eq_expr
from symx.shims import numpy_shim as np

FUNCS = ["edge_list_vectorizer.read_edge_data", "edge_list_vectorizer.EdgeListVectorizer.fit",
         "edge_list_vectorizer.EdgeListVectorizer.transform"]


def EL():
    return loader.load("vectorizers.edge_list_vectorizer")


def edges(prefix, n):
    return [(fresh_int("%sr%d" % (prefix, i), 0, None), fresh_int("%sc%d" % (prefix, i), 0, None), fresh_real("%sv%d" % (prefix, i)))
            for i in range(n)]


def _cells(name, M, E, est):
    rows, cols = est.row_label_dictionary_, est.column_label_dictionary_
    Md = M.toarray()
    conds = []
    for rl, i in rows.items():
        for cl, j in cols.items():
            want = Q(0)
            for r, c, v in E:
                want = want + ite(sand(r == rl, c == cl), v, Q(0))
            if i < Md.shape[0] and j < Md.shape[1]:
                conds.append(Md[i, j] == want)
            else:
                conds.append(want == 0)
    check(name, sand(*conds))


def h_edgelist(ex, n_fit, n_tr, joint, fixed):
    el = EL()
    E = edges("e", n_fit)
    F = edges("f", n_tr)
    register("E", [list(e) for e in E]); register("F", [list(e) for e in F])
    kw = {}
    if fixed:
        a, b = fresh_int("lab0", 0, None), fresh_int("lab1", 0, None)
        assume(a != b)
        register("row_labels", [a, b])
        # user-supplied indices need not be 0..n-1: gaps are allowed (the matrix then has max index + 1 rows)
        i0, i1 = fresh_int("idx0", 0, 3), fresh_int("idx1", 0, 3)
        assume(i0 != i1)
        i0, i1 = int(i0), int(i1)
        register("row_indices", [i0, i1])
        kw["row_label_dictionary"] = SymDict([(a, i0), (b, i1)])
    est = el.EdgeListVectorizer(joint_space=joint, **kw)
    r = call(est.fit, [tuple(e) for e in E])
    check("fit returns the estimator itself", r is est)
    M = est._train_matrix
    nr = (max(i0, i1) + 1) if fixed else len(est.row_label_dictionary_)
    nc = len(est.column_label_dictionary_)
    check("fit matrix shape (one row / column per index up to the largest fitted index)", M.shape == (nr, nc))
    _cells("fit_transform cell = sum of the values of the edges labelled (r, c)", M, E, est)
    T0 = call(est.transform, [tuple(e) for e in E])
    ok = T0.shape == M.shape
    check("fit(X).transform(X) has the shape of fit_transform(X)", ok)
    if ok:
        check("fit(X).transform(X) == fit_transform(X)", sand(*[a == b for a, b in zip(T0.toarray()._flat(), M.toarray()._flat())]))
    if n_tr:
        T = call(est.transform, [tuple(e) for e in F])
        ok = T.shape == M.shape
        check("transform keeps the fitted shape (one row / column per fitted label)", ok, detail={"got": list(T.shape), "want": list(M.shape)})
        _cells("transform cell = sum of the values of the known-labelled edges", T, F, est)
        return {"fit": M, "transform": T}
    return {"fit": M}


def cases(tier):
    grid = [(2, 1, False, False), (2, 1, True, False), (3, 1, False, False), (2, 1, False, True)] if tier == "quick" else \
        [(a, b, j, f) for a in (1, 2, 3, 4) for b in (1, 2, 3) for j in (False, True) for f in (False, True) if a + b <= 5 and not (j and f)]
    return [Case("edgelist[fit=%d,tr=%d,joint=%d,fixed_rows=%d]" % g, h_edgelist, dict(n_fit=g[0], n_tr=g[1], joint=g[2], fixed=g[3]),
                 replay="edgelist:replay_edgelist", witness="edgelist:witness_edgelist",
                 bounds={"fit edges": g[0], "transform edges": g[1], "joint_space": g[2], "row_label_dictionary": "2 symbolic labels" if g[3] else None,
                         "labels": "unconstrained integers", "values": "reals"}, functions=FUNCS,
                 shards=16 if g[0] + g[1] >= 4 else 1, shard_depth=10) for g in grid]
