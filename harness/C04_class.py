"""C04 class level: n_threads / coo_initial_memory / transform on other data give the reference matrix."""
from harness import cls_cooc, cls_cooc_family


def cases(tier):
    return cls_cooc.cases(tier, props=("C02",), which="threads") + [c for c in cls_cooc_family.cases(tier) if "alt=" in c.name]
