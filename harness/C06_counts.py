"""C06 -- n-gram / skip-gram / edge-list matrices hold exact counts; '+' merges models."""
from harness import cls_ngram, cls_edgelist, cls_skipgram


def cases(tier):
    return (cls_ngram.ngram_cases(tier, ["C06", "C01", "C02"]) + cls_ngram.add_cases(tier) + cls_ngram.lemma_cases(tier) + cls_edgelist.cases(tier)
            + cls_skipgram.cases(tier))
