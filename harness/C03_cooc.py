"""C03 -- co-occurrence matrices equal the windowed, kernel-weighted count definition (n_iter = 0).

Unit level: the real numba_build_skip_grams (token variant) with the real window_at_index, kernels and COO
accumulator is executed on symbolic token sequences, *per-token window radii*, offsets, normalisation flags
and mix weights, and compared cell by cell with a reference written from the property statement.
"""
import itertools
from symx.runner import Case
from symx import loader
from symx.api import *  # noqa
from symx.values import smin
from symx.shims import numpy_shim as np
from symx.shims import numba_shim

FUNCS = ["token_cooccurrence_vectorizer.numba_build_skip_grams", "_window_kernels.window_at_index",
         "_window_kernels.flat_kernel", "_window_kernels.harmonic_kernel", "_window_kernels.geometric_kernel",
         "coo_utils.coo_append", "coo_utils.coo_sum_duplicates", "coo_utils.merge_all_sum_duplicates"]


def kernel_weight(kind, k, power):
    if kind == "flat":
        return Q(1)
    if kind == "harmonic":
        return Q(1, k)
    r = Q(1)
    for _ in range(k):
        r = r * power
    return r


def reference_cells(docs, V, radii, reversals, kind, power, offsets, knorm, mask_index, mix, normalize_windows):
    """dict (a, col) -> symbolic value, written from the statement (no forking: radii/tokens enter through ite)"""
    nw = len(reversals)
    cells = {}
    for a in range(V):
        for c in range(nw * V):
            cells[(a, c)] = Q(0)
    events = []
    for doc in docs:
        n = len(doc)
        for p in range(n):
            tok = doc[p]
            per_window = []
            for i in range(nw):
                # radius of this occurrence for window i (per-token radius table)
                r = Q(0)
                for t in range(radii.shape[1]):
                    r = r + ite(tok == t, radii[i, t], 0)
                ws = []
                k = 1
                while True:
                    q = p - k if reversals[i] else p + k
                    if q < 0 or q >= n:
                        break
                    inwin = (k <= r)
                    w = kernel_weight(kind, k, power)
                    off = (k > offsets[i])
                    notmask = True if mask_index is None else (doc[q] != mask_index)
                    ws.append((q, ite(sand(inwin, off, notmask), w, Q(0))))
                    k += 1
                ksum = Q(0)
                for _, w in ws:
                    ksum = ksum + w
                if knorm[i] is not False:
                    ws = [(q, ite(sand(knorm[i], ksum > 0), w / ite(ksum > 0, ksum, Q(1)), w)) for q, w in ws]
                ws = [(q, mix[i] * w) for q, w in ws]
                per_window.append(ws)
            total = Q(0)
            for ws in per_window:
                for _, w in ws:
                    total = total + w
            for i, ws in enumerate(per_window):
                for q, w in ws:
                    if normalize_windows:
                        w = ite(total > 0, w / ite(total > 0, total, Q(1)), w)
                    events.append((tok, doc[q], i, w))
    for tok, ctx, i, w in events:
        for a in range(V):
            for b in range(V):
                key = (a, b + i * V)
                cells[key] = cells[key] + ite(sand(tok == a, ctx == b), w, Q(0))
    return cells


def h_token_unit(ex, doc_lens, V, R, reversals, kind, normalize_windows, sym_offset, sym_knorm, sym_power, per_token_radii, cap=64):
    tc = loader.load("vectorizers.token_cooccurrence_vectorizer")
    wk = loader.load("vectorizers._window_kernels")
    nw = len(reversals)
    docs = []
    for d, n in enumerate(doc_lens):
        docs.append([fresh_int("t%d_%d" % (d, j), 0, V - 1) for j in range(n)])
    register("docs", docs)
    seqs = numba_shim.typed.List([np.array(d, dtype=np.int32) if d else np.zeros(0, dtype=np.int32) for d in docs])
    if per_token_radii:
        rad = [[fresh_int("r%d_%d" % (i, t), 0, R) for t in range(V + 1)] for i in range(nw)]
    else:
        rs = [fresh_int("r%d" % i, 0, R) for i in range(nw)]
        rad = [[rs[i]] * (V + 1) for i in range(nw)]
    radii = np.array(rad, dtype=np.int64)
    register("radii", radii.copy())
    offsets = [fresh_int("off%d" % i, 0, 2) if sym_offset else 0 for i in range(nw)]
    knorm = [fresh_bool("knorm%d" % i) if sym_knorm else False for i in range(nw)]
    power = fresh_real("power", None, None) if sym_power else Q(9, 10)
    if sym_power:
        assume(sand(power > 0, power < 1))
    mix = [fresh_real("mix%d" % i, None, None) for i in range(nw)]
    for m in mix:
        assume(m > 0)
    register("offsets", offsets); register("knorm", knorm); register("power", power); register("mix", mix)
    kfun = {"flat": wk.flat_kernel, "harmonic": wk.harmonic_kernel, "geometric": wk.geometric_kernel}[kind]
    kargs = []
    for i in range(nw):
        a = (None, knorm[i], offsets[i])
        if kind == "geometric":
            a = a + (power,)
        kargs.append(a)
    coo_data = call(tc.numba_build_skip_grams,
                    token_sequences=seqs, window_size_array=radii, window_reversals=np.array(list(reversals)),
                    kernel_functions=tuple([kfun] * nw), kernel_args=numba_shim.typed.List(kargs),
                    mix_weights=np.array(mix, dtype=np.float64), normalize_windows=normalize_windows,
                    n_unique_tokens=V, array_lengths=np.array([cap] * nw, dtype=np.int64))
    check("one accumulator per window", len(coo_data) == nw)
    ref = reference_cells(docs, V, radii, reversals, kind, power, offsets, knorm, None, mix, normalize_windows)
    got = {k: Q(0) for k in ref}
    conds = []
    for i, coo in enumerate(coo_data):
        n = int(coo.ind[0])
        for j in range(n):
            r, c, v = coo.row[j], coo.col[j], coo.val[j]
            conds.append(sand(r >= 0, r < V, c >= i * V, c < (i + 1) * V))   # entry stays in its own column block
            for (a, b) in got:
                got[(a, b)] = got[(a, b)] + ite(sand(r == a, c == b), to_real(v), Q(0))
    check("every stored entry lies in the row range and in the column block of its window", sand(*conds))
    check("cell-wise equality with the windowed kernel-weighted count definition",
          sand(*[got[k] == ref[k] for k in sorted(ref)]))
    if not normalize_windows and not sym_knorm and nw == 2 and reversals[0] != reversals[1] and not per_token_radii:
        # with equal fixed radii and no normalisation 'before' is the transpose of 'after'
        same = sand(radii[0, 0] == radii[1, 0], offsets[0] == offsets[1], mix[0] == mix[1])
        tr = sand(*[got[(a, b)] == got[(b, a + V)] for a in range(V) for b in range(V)])
        check("before block is the transpose of the after block", simplies(same, tr))
    return {"cells": [got[k] for k in sorted(got)]}


def h_window_lemma(ex, reverse):
    """window_at_index for EVERY sequence length, radius and position (sizes symbolic): the slice it cuts is exactly the
    positions within the radius on the proper side, clipped to the sequence -- never the target itself, never outside
    the document -- and the reversed window is flipped so that position k of the result is at distance k + 1"""
    wk = loader.load("vectorizers._window_kernels")
    n = fresh_int("len", 1, 10 ** 6)
    r = fresh_int("radius", 0, 10 ** 6)
    ind = fresh_int("ind", 0)
    assume(ind < n)
    register("len", n); register("radius", r); register("ind", ind)
    cuts = []

    class _Seq:
        def __len__(self):
            raise TypeError("symbolic length")

        def __getitem__(self, k):
            cuts.append((k.start, k.stop))
            return ("slice", k.start, k.stop)
    seq = _Seq()
    saved_len, saved_np = wk.__dict__.get("len"), wk.np

    class _NP:
        @staticmethod
        def flipud(x):
            return ("flipped",) + x[1:]
    wk.len = lambda x: n if x is seq else saved_len(x)
    wk.np = _NP
    try:
        out = call(wk.window_at_index, seq, r, ind, reverse)
    finally:
        wk.len, wk.np = saved_len, saved_np
    check("exactly one slice is cut", len(cuts) == 1)
    if len(cuts) != 1:
        return None
    a, b = cuts[0]
    if reverse:
        lo = ite(ind - r >= 0, ind - r, 0)
        check("reverse window = positions [max(ind - radius, 0), ind), flipped (nearest first)", sand(a == lo, b == ind) and out[0] == "flipped")
    else:
        hi = ite(ind + r + 1 <= n, ind + r + 1, n)
        check("forward window = positions [ind + 1, min(ind + radius + 1, len))", sand(a == ind + 1, b == hi) and out[0] == "slice")
    check("the window stays inside the document and excludes the target", sand(a >= 0, b <= n, simplies(a < b, sor(b <= ind, a > ind))))
    return None


def cases(tier):
    cs = []
    A = [("unit", FUNCS)]
    if tier == "quick":
        grid = [
            # doc_lens, V, R, reversals, kind, normalize_windows, sym_offset, sym_knorm, sym_power, per_token
            ((3,), 2, 2, (True, False), "flat", False, False, False, False, False),
            ((3,), 2, 2, (True, False), "harmonic", True, False, False, False, False),
            ((2, 1), 2, 2, (False,), "geometric", False, True, True, True, False),
            ((3,), 2, 2, (False,), "flat", True, False, False, False, True),
            ((1, 2), 2, 2, (True,), "harmonic", False, True, False, False, False),
            # two windows whose totals are combined, kernel-level normalisation on, offsets that can empty one side
            ((3,), 2, 1, (True, False), "flat", True, True, True, False, False),
            ((2,), 2, 2, (True, False), "harmonic", True, True, True, False, False),
        ]
    else:
        grid = []
        for kind in ("flat", "harmonic", "geometric"):
            for nwn in (False, True):
                grid.append(((4,), 2, 3, (True, False), kind, nwn, False, False, False, False))
                grid.append(((2, 2), 2, 2, (True, False), kind, nwn, True, False, kind == "geometric", False))
                grid.append(((3,), 3, 2, (False,), kind, nwn, True, True, kind == "geometric", True))
                grid.append(((0, 3, 1), 2, 2, (True,), kind, nwn, True, True, False, True))
                grid.append(((3,), 2, 2, (True, False), kind, nwn, True, True, False, False))
    for rv in (False, True):
        cs.append(Case("window_lemma[all sizes,%s]" % ("before" if rv else "after"), h_window_lemma, dict(reverse=rv), replay="C03:replay_window_lemma",
                       functions=["_window_kernels.window_at_index"], bounds={"len, radius, ind": "symbolic up to 10^6"}))
    for g in grid:
        doc_lens, V, R, rev, kind, nwn, so, sk, sp, ptr = g
        name = "token_unit[docs=%s,V=%d,R=%d,rev=%s,%s,nw=%s,off=%s,knorm=%s,pow=%s,ptr=%s]" % (
            "+".join(map(str, doc_lens)), V, R, "".join("B" if r else "A" for r in rev), kind, int(nwn), int(so), int(sk), int(sp), int(ptr))
        cs.append(Case(name, h_token_unit,
                       dict(doc_lens=list(doc_lens), V=V, R=R, reversals=list(rev), kind=kind, normalize_windows=nwn,
                            sym_offset=so, sym_knorm=sk, sym_power=sp, per_token_radii=ptr),
                       replay="C03:replay_token_unit", witness="C03:witness_token_unit",
                       bounds={"doc lengths": list(doc_lens), "vocabulary": V, "radius": "0..%d symbolic%s" % (R, " per token" if ptr else ""),
                               "windows": len(rev), "kernel": kind, "offset": "0..2 symbolic" if so else 0,
                               "kernel normalize": "symbolic" if sk else False, "mix weights": "symbolic > 0"},
                       functions=FUNCS))
    return cs
