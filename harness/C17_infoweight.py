"""C17 -- information weights are KL divergences; transform is a fixed column scaling.

Real code: information_weight, column_weights, column_kl_divergence_exact_prior, supervised_column_kl,
InformationWeightTransformer.fit / transform.  The count matrix has a symbolic sparsity pattern (one boolean per cell,
so explicit zeros, empty rows and empty columns are ordinary paths), symbolic non-negative real counts and a symbolic
positive prior strength; it is handed over in every storage layout the statement lists.  `log` is an uninterpreted
function, so the definitional equality is decided up to congruence of its arguments; non-negativity uses the Gibbs
instances log(t) >= 1 - 1/t at exactly the arguments the kernel applied log to.
"""
import z3
from symx.runner import Case
from symx import loader, core
from symx.api import *  # noqa
from symx import values
from symx.shims import numpy_shim as np
from symx.shims import scipy_shim as sp

FUNCS = ["transformers.info_weight.information_weight", "transformers.info_weight.column_weights",
         "transformers.info_weight.column_kl_divergence_exact_prior", "transformers.info_weight.supervised_column_kl",
         "transformers.info_weight.InformationWeightTransformer.fit", "transformers.info_weight.InformationWeightTransformer.transform"]


def IW():
    return loader.load("vectorizers.transformers.info_weight")


def _matrix(fmt, nr, nc):
    """symbolic count matrix in layout `fmt` -> (matrix object, dense list of cell totals, description for the replay)"""
    dense = [[Q(0)] * nc for _ in range(nr)]
    if fmt == "dense":
        vals = [[fresh_real("c%d_%d" % (i, j), 0) for j in range(nc)] for i in range(nr)]
        register("layout", {"fmt": "dense", "dense": vals})
        return np.array(vals, dtype=np.float64), vals
    trip = []
    for i in range(nr):
        for j in range(nc):
            if fresh_bool("stored%d_%d" % (i, j)):
                v = fresh_real("c%d_%d" % (i, j), 0)        # may be an explicit zero
                trip.append((i, j, v))
                dense[i][j] = v
    base = fmt.split("-")[0]
    mods = fmt.split("-")[1:]
    if "dup" in mods and trip:
        # the first stored cell is split into two entries of the same cell
        i, j, v = trip[0]
        v2 = fresh_real("dup", 0)
        trip.append((i, j, v2))
        dense[i][j] = v + v2
    if base == "coo":
        if "unsorted" in mods:
            trip = trip[::-1]
        m = sp.coo_matrix((np.array([t[2] for t in trip], dtype=np.float64) if trip else np.zeros(0, np.float64),
                           (np.array([t[0] for t in trip], dtype=np.int32) if trip else np.zeros(0, np.int32),
                            np.array([t[1] for t in trip], dtype=np.int32) if trip else np.zeros(0, np.int32))), shape=(nr, nc))
        register("layout", {"fmt": "coo", "shape": [nr, nc], "row": [t[0] for t in trip], "col": [t[1] for t in trip],
                            "data": [t[2] for t in trip]})
        return m, dense
    major = 0 if base == "csr" else 1
    nmaj = (nr, nc)[major]
    indptr, indices, data = [0], [], []
    for a in range(nmaj):
        seg = [t for t in trip if t[major] == a]
        seg.sort(key=lambda t: t[1 - major], reverse=("unsorted" in mods))
        for t in seg:
            indices.append(t[1 - major])
            data.append(t[2])
        indptr.append(len(indices))
    m = getattr(sp, base + "_matrix")((np.array(data, dtype=np.float64) if data else np.zeros(0, np.float64),
                                       np.array(indices, dtype=np.int32) if indices else np.zeros(0, np.int32),
                                       np.array(indptr, dtype=np.int32)), shape=(nr, nc))
    register("layout", {"fmt": base, "shape": [nr, nc], "data": data, "indices": indices, "indptr": indptr})
    return m, dense


LOG_ARGS = []
POW_ARGS = []


class _NP:
    """the module's `np` with log / power recording their arguments (for the axiom instances)"""

    def __getattr__(self, k):
        return getattr(np, k)

    @staticmethod
    def log(x):
        if isinstance(x, np.ndarray):
            LOG_ARGS.extend(x._flat())
        else:
            LOG_ARGS.append(x)
        return np.log(x)

    @staticmethod
    def power(a, b):
        if isinstance(a, np.ndarray):
            POW_ARGS.extend(a._flat())
        else:
            POW_ARGS.append(a)
        return np.power(a, b)


def _instrument(mod):
    del LOG_ARGS[:]
    del POW_ARGS[:]
    if not isinstance(mod.np, _NP):
        mod.np = _NP()


def _gibbs_axioms():
    """log(t) >= 1 - 1/t for every t the code applied log to on this path (t > 0)"""
    f = values._UF.get(("log", 1))
    if f is None:
        return
    seen = {}
    for t in LOG_ARGS:
        if isinstance(t, (values.NaN, values.Poison)) or (isinstance(t, float) and t != t):
            continue
        e = values.lift(values.to_real(t))
        seen[e.get_id()] = e
    for e in seen.values():
        core.EX.add(z3.Implies(e > 0, f(e) >= 1 - 1 / e))


def _reference_kl(dense, s, nr, nc):
    """KL(posterior_j || baseline) from the statement, with log the same uninterpreted function"""
    rows = [values.to_real(sum(dense[i], Q(0))) for i in range(nr)]
    total = sum(rows, Q(0))
    base = [r / total for r in rows]
    out = []
    for j in range(nc):
        norm = sum((dense[i][j] for i in range(nr)), Q(0)) + s
        acc = Q(0)
        for i in range(nr):
            obs = (dense[i][j] + s * base[i]) / norm
            if obs > 0:      # zero-baseline rows (and only those, s > 0) contribute nothing
                acc = acc + obs * values.slog(obs / base[i])
        out.append(acc)
    return out, base


def h_exact(ex, nr, nc, fmt, gibbs=False):
    iw = IW()
    _instrument(iw)
    s = fresh_real("prior_strength")
    assume(s > 0)
    register("prior_strength", s)
    m, dense = _matrix(fmt, nr, nc)
    total = sum((sum(r, Q(0)) for r in dense), Q(0))
    assume(total > 0)
    if fmt == "dense":
        m = sp.csc_matrix(m)        # what InformationWeightTransformer.fit does with an ndarray
    w = call(iw.information_weight, m, s, False)
    check("one weight per column", tuple(w.shape) == (nc,))
    check("weights are finite (no NaN)", not has_nan(w) and not has_poison(w))
    ref, base = _reference_kl(dense, s, nr, nc)
    if has_nan(w):
        return None
    for j in range(nc):
        check("weight[%d] = KL(posterior || baseline)" % j, w[j] == ref[j])
    if gibbs:
        # non-negativity follows from the equality above and Gibbs' inequality; decided here on the code's own
        # expression for the layouts flagged in cases() (it does not depend on the storage layout once the equality holds)
        _gibbs_axioms()
        for j in range(nc):
            check("weight[%d] >= 0 (Gibbs instances)" % j, w[j] >= 0)
    return {"weights": [w[j] for j in range(nc)]}


def h_perm(ex, nr, nc, fmt):
    """direct statement: weights are invariant under a row permutation and permute with the columns"""
    iw = IW()
    s = fresh_real("prior_strength")
    assume(s > 0)
    register("prior_strength", s)
    vals = [[fresh_real("c%d_%d" % (i, j), 0) for j in range(nc)] for i in range(nr)]
    register("layout", {"fmt": "dense", "dense": vals})
    total = sum((sum(r, Q(0)) for r in vals), Q(0))
    assume(total > 0)
    rp = list(range(1, nr)) + [0]
    cp = list(range(1, nc)) + [0]
    a = sp.csr_matrix(np.array(vals, dtype=np.float64))
    b = getattr(sp, fmt + "_matrix")(np.array([[vals[rp[i]][cp[j]] for j in range(nc)] for i in range(nr)], dtype=np.float64))
    wa = call(iw.information_weight, a, s, False)
    wb = call(iw.information_weight, b, s, False)
    for j in range(nc):
        check("weights permute with columns and ignore row order", wb[j] == wa[cp[j]])
    return None


def h_transform(ex, nr, nc, fmt, supervised=False):
    """fit on one symbolic matrix, transform another: a fixed non-negative column scaling"""
    iw = IW()
    _instrument(iw)
    s = fresh_real("prior_strength")
    p = fresh_real("weight_power")
    assume(s > 0)
    assume(p > 0)
    register("prior_strength", s)
    register("weight_power", p)
    m, dense = _matrix(fmt, nr, nc)
    total = sum((sum(r, Q(0)) for r in dense), Q(0))
    assume(total > 0)
    est = iw.InformationWeightTransformer(prior_strength=s, approx_prior=False, weight_power=p)
    r = call(est.fit, m)
    check("fit returns the estimator", r is est)
    w = est.information_weights_
    check("one learned weight per column", tuple(w.shape) == (nc,))
    finite = not has_nan(w) and not has_poison(w)
    check("learned weights are finite", finite)
    if not finite:
        return None
    f = values._UF.get(("pow", 2))
    # pow(a, b) >= 0 for a >= 0 : the only fact about the power function that is used
    if f is not None:
        for a in POW_ARGS:
            e = values.lift(values.to_real(a))
            core.EX.add(z3.Implies(e >= 0, f(e, values.lift(p)) >= 0))
    for j in range(nc):
        check("learned weight[%d] >= 0" % j, w[j] >= 0)
    X = [[fresh_real("x%d_%d" % (i, j)) for j in range(nc)] for i in range(2)]
    register("X", X)
    # every cell stored (explicit zeros allowed): the sparsity pattern of X does not influence the product
    Xm = sp.csr_matrix((np.array([x for r_ in X for x in r_], dtype=np.float64), np.array(list(range(nc)) * 2, dtype=np.int32),
                        np.array([0, nc, 2 * nc], dtype=np.int32)), shape=(2, nc))
    w_before = [w[j] for j in range(nc)]
    out = call(est.transform, Xm)
    check("transform keeps the shape", tuple(out.shape) == (2, nc))
    d = out.toarray()
    for i in range(2):
        for j in range(nc):
            check("transform(X)[i, j] = X[i, j] * weight[j]", d[i, j] == X[i][j] * w_before[j])
            check("no non-zero where X had none", simplies(X[i][j] == 0, d[i, j] == 0))
    check("transform leaves the learned weights unchanged", sand(*[est.information_weights_[j] == w_before[j] for j in range(nc)]))
    return None


def cases(tier):
    cs = []
    GIBBS = {(2, 2, "csc"), (3, 1, "csc")} if tier == "quick" else {(2, 2, "csc"), (3, 1, "csc"), (3, 2, "csc"), (2, 3, "csc"), (1, 2, "csc")}
    if tier == "quick":
        grid = [(2, 2, "csc"), (2, 2, "csr-unsorted"), (2, 2, "csc-unsorted"), (2, 2, "coo-dup-unsorted"), (2, 2, "dense"),
                (3, 1, "csc"), (1, 3, "csr"), (3, 1, "csc-unsorted")]
        pgrid = [(2, 2, "csr"), (3, 2, "csc")]
        tgrid = [(2, 2, "csc"), (2, 1, "csr"), (2, 2, "dense")]
    else:
        grid = [(nr, nc, f) for nr, nc in ((2, 2), (3, 2), (2, 3), (3, 3), (1, 2), (3, 1))
                for f in ("csc", "csc-unsorted", "csr", "csr-unsorted", "coo", "coo-dup-unsorted", "csc-dup", "dense")]
        pgrid = [(2, 2, "csr"), (3, 2, "csc"), (3, 3, "coo"), (2, 3, "csc")]
        tgrid = [(2, 2, "csc"), (2, 1, "csr"), (2, 2, "dense"), (3, 2, "coo-dup-unsorted"), (2, 3, "csr-unsorted")]
    A = ["log is an uninterpreted function (equal arguments give equal values); non-negativity uses only the Gibbs instances log(t) >= 1 - 1/t at the arguments the kernel applied log to",
         "prior_strength > 0, total mass > 0", "Real arithmetic: float64 rounding of log and of the sums is outside"]
    for nr, nc, f in grid:
        g = (nr, nc, f) in GIBBS
        cs.append(Case("kl_exact[%dx%d,%s%s]" % (nr, nc, f, ",nonneg" if g else ""), h_exact, dict(nr=nr, nc=nc, fmt=f, gibbs=g), replay="C17:replay_exact", fast_ms=300, ack_first=True,
                       shards=(16 if nr * nc >= 6 and f != "dense" else 1), shard_depth=min(6, nr * nc),
                       witness="C17:witness_exact", functions=FUNCS, assumptions=A, max_witness=6,
                       bounds={"rows": nr, "cols": nc, "layout": f, "pattern": "every subset of cells stored (symbolic)",
                               "counts": "reals >= 0 (explicit zeros included)", "prior_strength": "real > 0"}))
    for nr, nc, f in pgrid:
        cs.append(Case("kl_permutation[%dx%d,%s]" % (nr, nc, f), h_perm, dict(nr=nr, nc=nc, fmt=f), replay="C17:replay_perm", fast_ms=500, ack_first=True,
                       functions=FUNCS, assumptions=A, bounds={"rows": nr, "cols": nc, "permutation": "cyclic shift of rows and of columns"}))
    for nr, nc, f in tgrid:
        cs.append(Case("fit_transform_scaling[%dx%d,%s]" % (nr, nc, f), h_transform, dict(nr=nr, nc=nc, fmt=f),
                       replay="C17:replay_transform", functions=FUNCS, fast_ms=500, ack_first=True,
                       assumptions=A + ["np.power is uninterpreted with the single axiom pow(a, b) >= 0 for a >= 0"],
                       bounds={"rows": nr, "cols": nc, "layout": f, "transform input": "2 x cols arbitrary reals"}))
    return cs
