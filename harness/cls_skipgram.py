"""Class-level harness for SkipgramVectorizer (serves C01, C02, C06, C12)."""
from symx.runner import Case
from symx import loader
from symx.api import *  # noqa
from symx.containers import SymDict, sym_eq_expr
from symx.shims import numpy_shim as np
import symx.core as core
from harness.cls_ngram import docs_of

FUNCS = ["skip_gram_vectorizer.build_skip_grams", "skip_gram_vectorizer.skip_grams_matrix_coo_data",
         "skip_gram_vectorizer.SkipgramVectorizer.fit", "skip_gram_vectorizer.SkipgramVectorizer.transform",
         "coo_utils.sum_coo_entries", "_window_kernels.window_at_index", "_window_kernels.fixed_window_radii",
         "_window_kernels.flat_kernel", "_window_kernels.harmonic_kernel"]


def SG():
    return loader.load("vectorizers.skip_gram_vectorizer")


def _w(kind, k):
    return Q(1) if kind == "flat" else Q(1, k)


def check_cells(name, M, docs, est, radius, kind):
    vocab = est._token_dictionary_
    cols = est.column_label_dictionary_
    Md = M.toarray()
    conds = []
    for i, doc in enumerate(docs):
        seq = [t for t in doc if t in vocab]
        for (a, b), j in cols.items():
            want = Q(0)
            for p in range(len(seq)):
                for k in range(1, radius + 1):
                    if p + k < len(seq):
                        want = want + ite(sand(seq[p] == a, seq[p + k] == b), _w(kind, k), Q(0))
            conds.append(Md[i, j] == want)
    check(name, sand(*conds))


def h_skipgram(ex, fit_lens, tr_lens, radius, kind, fixed_dict, props):
    sg = SG()
    X = docs_of("x", fit_lens)
    Y = docs_of("y", tr_lens)
    register("X", X); register("Y", Y)
    kw = {}
    if fixed_dict:
        labs = [fresh_int("lab%d" % i, 0, None) for i in range(3)]
        assume(sand(labs[0] != labs[1], labs[0] != labs[2], labs[1] != labs[2]))
        register("dict_labels", labs)
        kw["token_dictionary"] = SymDict([(l, i) for i, l in enumerate(labs)])
    est = sg.SkipgramVectorizer(window_radius=radius, kernel_function=kind, **kw)
    try:
        r = est.fit(X)
    except ValueError:
        raise PathAbort()
    except (PathAbort, core.BoundHit, core.Unmodelled):
        raise
    except Exception as e:
        core.EX.fault(e)
        raise PathAbort()
    check("fit returns the estimator itself", r is est)
    M = est._train_matrix
    ncols = len(est.column_label_dictionary_)
    check("fit matrix shape", M.shape == (len(X), ncols))
    # every pair that occurs within a window has a column
    check_cells("fit_transform cell (i,(a,b)) = summed kernel weight of b within the window after a", M, X, est, radius, kind)
    vocab = est._token_dictionary_
    for i, doc in enumerate(X):
        seq = [t for t in doc if t in vocab]
        for p in range(len(seq)):
            for k in range(1, radius + 1):
                if p + k < len(seq):
                    check("every co-occurring pair of the training corpus has a column", (seq[p], seq[p + k]) in est.column_label_dictionary_)
    T0 = call(est.transform, X)
    ok = T0.shape == M.shape
    check("fit(X).transform(X) has the shape of fit_transform(X)", ok)
    if ok:
        check("fit(X).transform(X) == fit_transform(X)", sand(*[a == b for a, b in zip(T0.toarray()._flat(), M.toarray()._flat())]))
    if Y:
        T = call(est.transform, Y)
        check("transform: one row per item, fitted number of columns", T.shape == (len(Y), ncols), detail={"got": list(T.shape)})
        if T.shape == (len(Y), ncols):
            check_cells("transform cell = summed kernel weight on the fitted columns", T, Y, est, radius, kind)
            for i, y in enumerate(Y):
                T1 = call(est.transform, [y])
                check("row of a batch equals the singleton transform",
                      T1.shape == (1, ncols) and sand(*[a == b for a, b in zip(T.toarray()[i]._flat(), T1.toarray()[0]._flat())]))
        return {"fit": M, "transform": T}
    return {"fit": M}


def cases(tier, props=("C06", "C01", "C02", "C12")):
    if tier == "quick":
        grid = [((3,), (2,), 2, "flat", False), ((2, 1), (0, 2), 1, "harmonic", False), ((2,), (2,), 1, "flat", True), ((3,), (1,), 2, "harmonic", False)]
    else:
        grid = [(f, t, r, k, d) for f in ((3,), (2, 2), (4,), (1, 3)) for t in ((2,), (0, 2), (3,), (1, 1)) for r in (1, 2, 3)
                for k in ("flat", "harmonic") for d in (False, True) if sum(f) + sum(t) <= 6]
    return [Case("skipgram[fit=%s,tr=%s,r=%d,%s,fixed_dict=%d]" % ("+".join(map(str, f)), "+".join(map(str, t)), r, k, d),
                 h_skipgram, dict(fit_lens=list(f), tr_lens=list(t), radius=r, kind=k, fixed_dict=d, props=list(props)),
                 replay="skipgram:replay_skipgram", witness="skipgram:witness_skipgram",
                 bounds={"fit document lengths": list(f), "transform item lengths": list(t), "window_radius": r, "kernel": k,
                         "token_dictionary": "3 symbolic labels (some possibly unobserved)" if d else None}, functions=FUNCS,
                 shards=8 if sum(f) + sum(t) >= 5 else 1, shard_depth=8)
            for f, t, r, k, d in grid]
