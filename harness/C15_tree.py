"""C15 -- labelled-tree co-occurrence counts kernel-weighted walks between labels.

Real code: LabelledTreeCooccurrenceVectorizer.fit / fit_transform / transform, sequence_tree_skip_grams,
build_tree_skip_grams (powers of the adjacency matrix weighted by the kernel), utils.sparse_collapse (LabelBinarizer
with its 1- and 2-class special cases), preprocess_tree_sequences and remove_node (LIL row surgery), executed on
forests whose SHAPE is a case parameter (parent arrays, every rooted shape up to the bound incl. isolated nodes) and
whose labels are unconstrained symbolic integers (repeated labels are ordinary paths), with the window radius and the
kernel as case parameters and the removed label a symbolic value.

Oracle (written from the statement, independent of matrix algebra): a dynamic programme over the parent arrays that
enumerates, for every ordered node pair (u, v), the k for which v is the k-th descendant of u (in a rooted forest the
number of directed k-step walks from u to v is 1 exactly then), after reconnecting the children of removed nodes to
their nearest kept ancestor.  Entry (a, b) = sum over trees, over pairs with labels (a, b), of the kernel weight of k
for k <= window_radius; 'before' is the transpose, 'symmetric' the sum, 'directional' the side-by-side concatenation.
On path graphs the result is additionally compared, symbolically, with the real TokenCooccurrenceVectorizer on the
corresponding sequences.
"""
from symx.runner import Case
from symx import loader, core
from symx.api import *  # noqa
from symx.containers import SymSet, SymStr
from symx.shims import numpy_shim as np
from symx.shims import scipy_shim as sp

FUNCS = ["tree_token_cooccurrence.LabelledTreeCooccurrenceVectorizer.fit", "tree_token_cooccurrence.LabelledTreeCooccurrenceVectorizer.transform",
         "tree_token_cooccurrence.sequence_tree_skip_grams", "tree_token_cooccurrence.build_tree_skip_grams", "utils.sparse_collapse",
         "preprocessing.preprocess_tree_sequences", "preprocessing.remove_node", "_window_kernels.flat_kernel", "_window_kernels.harmonic_kernel"]


def TT():
    return loader.load("vectorizers.tree_token_cooccurrence")


def _adj(parents):
    n = len(parents)
    rows = [p for p in parents if p is not None]
    cols = [i for i, p in enumerate(parents) if p is not None]
    if not rows:
        return sp.csr_matrix((n, n))
    return sp.csr_matrix((np.array([1.0] * len(rows)), (np.array(rows), np.array(cols))), shape=(n, n))


def _weight(kernel, k):
    return {"flat": Q(1), "harmonic": Q(1, k)}[kernel]


def reference(forest, labels, vocab, radius, kernel, removed, mask=None):
    """dict (a_index, b_index) -> weight, for orientation 'after'.
    mask None: removed nodes are contracted away; 'mask': they stay in place under the mask label (last vocabulary
    index); 'nullify': as 'mask' with every contribution from / to the mask dropped"""
    V = len(vocab)
    cells = {(a, b): Q(0) for a in range(V) for b in range(V)}
    if mask is not None:
        for parents, labs in zip(forest, labels):
            n = len(parents)
            idx = [(V - 1) if (removed is not None and bool(labs[i] == removed)) else vocab[labs[i]] for i in range(n)]
            for v in range(n):
                u, k = parents[v], 1
                while u is not None and k <= radius:
                    a, b = idx[u], idx[v]
                    if not (mask == "nullify" and (bool(a == V - 1) or bool(b == V - 1))):
                        for (x, y) in cells:
                            cells[(x, y)] = cells[(x, y)] + ite(sand(a == x, b == y), _weight(kernel, k), Q(0))
                    u, k = parents[u], k + 1
        return cells
    for parents, labs in zip(forest, labels):
        n = len(parents)
        kept = [not (removed is not None and bool(labs[i] == removed)) for i in range(n)]
        # nearest kept ancestor chain: contracted parent of every kept node
        def cparent(i):
            p = parents[i]
            while p is not None and not kept[p]:
                p = parents[p]
            return p
        cp = [cparent(i) if kept[i] else None for i in range(n)]
        for v in range(n):
            if not kept[v]:
                continue
            u, k = cp[v], 1
            while u is not None and k <= radius:
                a, b = vocab[labs[u]], vocab[labs[v]]
                for (x, y) in cells:
                    cells[(x, y)] = cells[(x, y)] + ite(sand(a == x, b == y), _weight(kernel, k), Q(0))
                u, k = cp[u], k + 1
    return cells


def h_tree(ex, forest, radius, kernel, orientation, prune, with_transform=False, mask=None, lil=False):
    tt = TT()
    strings = orientation == "directional"     # the vectorizer builds 'pre_' + token: labels must be strings there
    if strings:
        labels = [[SymStr([fresh_int("l%d_%d" % (t, i), 97, 122)]) for i in range(len(parents))] for t, parents in enumerate(forest)]
    else:
        labels = [[fresh_int("l%d_%d" % (t, i), 0, None) for i in range(len(parents))] for t, parents in enumerate(forest)]
    register("labels", labels)
    kw = {}
    removed = None
    if prune:
        removed = SymStr([fresh_int("removed", 97, 122)]) if strings else fresh_int("removed", 0, None)
        register("removed", removed)
        kw["ignored_tokens"] = SymSet([removed])
    mask_label = None
    if mask is not None:
        mask_label = SymStr([35]) if strings else -7          # '#' / -7: outside the label alphabet
        kw["mask_string"] = mask_label
        kw["nullify_mask"] = mask == "nullify"
    est = tt.LabelledTreeCooccurrenceVectorizer(window_radius=radius, kernel_function=kernel, window_orientation=orientation, **kw)
    mats = [_adj(parents).tolil() if lil else _adj(parents) for parents in forest]
    adj_before = [[(r_, c_, v_) for r_, c_, v_ in m._triples()] for m in mats]
    X = [(m, list(labs)) for m, labs in zip(mats, labels)]
    try:
        M = call(est.fit_transform, X, expected=(ValueError,))
    except ValueError:
        raise PathAbort()          # nothing left after pruning
    vocab = est.token_label_dictionary_
    V = len(vocab)
    check("fit leaves the caller's adjacency matrices untouched",
          all([(r_, c_, v_) for r_, c_, v_ in m._triples()] == b0 for m, b0 in zip(mats, adj_before)))
    if removed is not None:
        check("the removed label is not in the vocabulary", removed not in vocab)
    check("every kept label is in the vocabulary",
          all((l in vocab) or (removed is not None and bool(l == removed)) for labs in labels for l in labs))
    if mask is not None:
        check("the mask is exactly one extra vocabulary entry with the last index", (mask_label in vocab) and bool(vocab[mask_label] == V - 1))
    want_cols = 2 * V if orientation == "directional" else V
    ok = tuple(M.shape) == (V, want_cols)
    check("shape (n_labels, n_labels) -- twice as wide for 'directional'", ok, detail={"shape": list(M.shape), "V": V})
    if not ok:
        return None
    ref = reference(forest, labels, vocab, radius, kernel, removed, mask)
    D = M.toarray()
    conds = []
    for a in range(V):
        for b in range(V):
            after = ref[(a, b)]
            before = ref[(b, a)]
            if orientation == "after":
                conds.append(D[a, b] == after)
            elif orientation == "before":
                conds.append(D[a, b] == before)
            elif orientation == "symmetric":
                conds.append(D[a, b] == after + before)
            else:
                conds.append(sand(D[a, b] == before, D[a, b + V] == after))
    check("entry (a, b) = kernel-weighted number of walks of <= radius steps between nodes labelled a and b (%s)" % orientation, sand(*conds))
    out = {"M": M, "vocab": [[k, v] for k, v in vocab.items()]}
    if with_transform:
        T = call(est.transform, X)
        check("transform leaves the caller's adjacency matrices untouched",
              all([(r_, c_, v_) for r_, c_, v_ in m._triples()] == b0 for m, b0 in zip(mats, adj_before)))
        check("transform(X) == fit_transform(X)", tuple(T.shape) == tuple(M.shape) and
              sand(*[x == y for x, y in zip(T.toarray()._flat(), M.toarray()._flat())]))
    return out


def h_path_vs_token(ex, n, radius, kernel):
    """on a path graph the tree vectorizer coincides with TokenCooccurrenceVectorizer on the label sequence"""
    tt = TT()
    tc = loader.load("vectorizers.token_cooccurrence_vectorizer")
    labs = [fresh_int("l%d" % i, 0, None) for i in range(n)]
    register("labels", labs)
    parents = [None] + list(range(n - 1))
    t = tt.LabelledTreeCooccurrenceVectorizer(window_radius=radius, kernel_function=kernel, window_orientation="after")
    Mt = call(t.fit_transform, [(_adj(parents), list(labs))])
    k = tc.TokenCooccurrenceVectorizer(window_radii=radius, kernel_functions=kernel, window_orientations="after", normalize_windows=False)
    Mk = call(k.fit_transform, [list(labs)])
    check("same vocabulary", len(t.token_label_dictionary_) == len(k.token_label_dictionary_) and
          all(l in k.token_label_dictionary_ and bool(t.token_label_dictionary_[l] == k.token_label_dictionary_[l]) for l in t.token_label_dictionary_))
    check("same matrix as TokenCooccurrenceVectorizer on the sequence", tuple(Mt.shape) == tuple(Mk.shape) and
          sand(*[x == y for x, y in zip(Mt.toarray()._flat(), Mk.toarray()._flat())]))
    return None


def mask_grid(tier):
    """masked / nullified / LIL-input variants (shared with C14 and C13)"""
    if tier == "quick":
        return [([[None, 0, 1]], 2, "flat", "after", True, True, "mask", False), ([[None, 0, 1]], 2, "harmonic", "directional", True, False, "nullify", False),
                ([[None, 0, 0]], 2, "flat", "symmetric", True, False, "nullify", False), ([[None, 0, 1]], 2, "flat", "after", True, True, None, True),
                ([[None, 0, 1, 1]], 2, "flat", "before", True, False, "nullify", False)]
    out = []
    for sh in SHAPES3 + SHAPES4[:3]:
        for o in ("after", "before", "symmetric", "directional"):
            for mk in ("mask", "nullify"):
                if o == "directional" and len(sh) == 4:
                    continue
                out.append(([sh], 2, "harmonic", o, True, o == "after", mk, False))
        out.append(([sh], 2, "flat", "after", True, True, None, True))
        out.append(([sh], 3, "flat", "symmetric", True, True, "mask", True))
    return out


SHAPES3 = [[None, 0, 1], [None, 0, 0], [None, None, 1], [None, 0, None]]
SHAPES4 = [[None, 0, 1, 2], [None, 0, 1, 1], [None, 0, 0, 0], [None, 0, 0, 1], [None, 0, 1, None], [None, None, 0, 1]]


def cases(tier):
    cs = []
    G = []
    if tier == "quick":
        G += [([[None, 0, 1]], 2, "flat", "after", False, True), ([[None, 0, 0]], 2, "harmonic", "before", False, False),
              ([[None, 0, 1, 1]], 2, "harmonic", "symmetric", False, False), ([[None, 0, 1]], 3, "flat", "after", True, False),
              ([[None, 0, 1, 2]], 2, "flat", "after", True, False), ([[None, 0], [None, 0, 0]], 1, "flat", "symmetric", False, False),
              ([[None, 0, 1]], 2, "harmonic", "directional", False, False), ([[None, 0, None]], 2, "flat", "before", True, False),
              ([[None, 0, 1, 1]], 3, "harmonic", "after", True, False)]
        PV = [(3, 2, "flat"), (3, 1, "harmonic")]
    else:
        for sh in SHAPES3 + SHAPES4:
            for r in (1, 2, 3):
                for kern in ("flat", "harmonic"):
                    for o in ("after", "before", "symmetric", "directional"):
                        for pr in (False, True):
                            if o == "directional" and len(sh) == 4:
                                continue
                            G.append(([sh], r, kern, o, pr, o == "after" and not pr))
        G += [([[None, 0], [None, 0, 0]], 2, "flat", "symmetric", True, False), ([[None, 0, 1], [None, 0]], 2, "harmonic", "after", True, False)]
        PV = [(n, r, k) for n in (2, 3, 4) for r in (1, 2, 3) for k in ("flat", "harmonic")]
    A = ["forest shapes are case parameters (parent arrays); labels unconstrained (integers; single lower-case letters for 'directional', which concatenates 'pre_' + label)",
         "adjacency entries are 1 (unweighted trees)", "Real arithmetic (the vectorizer accumulates in float32 / float64)"]
    G = [g + (None, False) for g in G] + mask_grid(tier)
    for forest, r, kern, o, pr, tr, mk, lil in G:
        nn = sum(len(f) for f in forest)
        cs.append(Case("tree[%s,r=%d,%s,%s,prune=%d%s%s]" % ("|".join("".join("-" if p is None else str(p) for p in f) for f in forest), r, kern, o, int(pr),
                                                            ",mask=%s" % mk if mk else "", ",lil" if lil else ""),
                       h_tree, dict(forest=forest, radius=r, kernel=kern, orientation=o, prune=pr, with_transform=tr, mask=mk, lil=lil), replay="C15:replay_tree",
                       witness="C15:witness_tree", functions=FUNCS, assumptions=A, max_witness=6, shards=8 if nn >= 4 else 1, shard_depth=8,
                       bounds={"forest (parent arrays)": forest, "window_radius": r, "kernel": kern, "orientation": o,
                               "pruning": "one symbolic removed label" if pr else "none"}))
    for n, r, kern in PV:
        cs.append(Case("path_vs_token[n=%d,r=%d,%s]" % (n, r, kern), h_path_vs_token, dict(n=n, radius=r, kernel=kern), replay="C15:replay_path",
                       functions=FUNCS + ["token_cooccurrence_vectorizer.TokenCooccurrenceVectorizer.fit_transform"], assumptions=A,
                       bounds={"path length": n, "window_radius": r, "kernel": kern}))
    return cs
