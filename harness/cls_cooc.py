"""Class-level harness for TokenCooccurrenceVectorizer (serves C01, C02, C03, C04, C13, C14).

The real class code (constructor expansion of orientations, preprocessing, _set_column_dicts, window radii, kernel
argument assembly, buffer sizing, chunking + dask summation, _build_coo, the numba driver and the accumulator) runs on
symbolic corpora; the result is compared with the reference of the property statement, for fit_transform, fit and
transform, for every n_threads / coo_initial_memory in the case grid.
"""
from symx.runner import Case
from symx import loader
from symx.api import *  # noqa
from symx.containers import SymSet, SymDict
from symx.shims import numpy_shim as np
import symx.core as core
from harness.C03_cooc import reference_cells
from harness.cls_ngram import docs_of

FUNCS = ["base_cooccurrence_vectorizer.BaseCooccurrenceVectorizer.__init__", "base_cooccurrence_vectorizer.BaseCooccurrenceVectorizer.fit_transform",
         "base_cooccurrence_vectorizer.BaseCooccurrenceVectorizer.fit", "base_cooccurrence_vectorizer.BaseCooccurrenceVectorizer.transform",
         "base_cooccurrence_vectorizer.BaseCooccurrenceVectorizer._set_column_dicts", "base_cooccurrence_vectorizer.BaseCooccurrenceVectorizer._set_coo_sizes",
         "base_cooccurrence_vectorizer.BaseCooccurrenceVectorizer._generate_chunk_boundaries", "base_cooccurrence_vectorizer.BaseCooccurrenceVectorizer._build_coo",
         "base_cooccurrence_vectorizer.BaseCooccurrenceVectorizer._build_token_cooccurrence_matrix",
         "token_cooccurrence_vectorizer.numba_build_skip_grams", "preprocessing.preprocess_token_sequences",
         "_window_kernels.window_at_index", "_window_kernels.fixed_window_radii", "_window_kernels.flat_kernel",
         "_window_kernels.harmonic_kernel", "_window_kernels.geometric_kernel", "coo_utils.coo_append"]

MASK = -7


def TC():
    return loader.load("vectorizers.token_cooccurrence_vectorizer")


class _Radii:
    def __init__(self, rows):
        self.rows = rows
        self.shape = (len(rows), len(rows[0]))

    def __getitem__(self, k):
        return self.rows[k[0]][k[1]]


def ref_variable_radii(window_size, freqs, mask_index, power=0.75):
    """documented 'variable' window: radius proportional to frequency ** (power - 1), normalised so that the
    frequency-weighted mean radius is window_size, at least 1 for every real token, 0 for a nullified mask"""
    rad = [float(f) ** (power - 1) for f in freqs]
    norm = sum(r * float(f) for r, f in zip(rad, freqs))
    rad = [r / norm for r in rad]
    rad.append(min(rad))
    if mask_index is not None:
        rad[mask_index] = 0.0
    out = []
    for x in rad:
        x = x * window_size
        if 0 < x < 1:
            x = 1.0
        out.append(int(round(x)))          # python round = numpy round (half to even)
    return out


def expected_matrix(docs, est, cfg):
    """reference of the statement on the documented preprocessing of `docs` with the fitted vocabulary"""
    vocab = est.token_label_dictionary_
    V = len(vocab)
    mask = cfg.get("mask")
    seqs = []
    for d in docs:
        s = []
        for t in d:
            if t in vocab and not (mask is not None and bool(t == mask)):
                s.append(vocab[t])
            elif mask is not None:
                s.append(V - 1)          # the mask is the last vocabulary entry
        seqs.append(s)
    rev = []
    radii = []
    for o, r in zip(cfg["orientations"], cfg["radii"]):
        for side in ([True, False] if o == "directional" else [o == "before"]):
            rev.append(side)
            if cfg.get("window_function") == "variable":
                freqs = [f for f in est._token_frequencies_._flat()]
                row = ref_variable_radii(r, freqs, (V - 1) if cfg.get("nullify") else None)
                row = row + [0] * (V + 1 - len(row))
            else:
                row = [r] * (V + 1)
                if cfg.get("nullify"):
                    row[V - 1] = 0
            radii.append(row)
    nw = len(rev)
    mask_index = (V - 1) if cfg.get("nullify") else None
    cells = reference_cells(seqs, V, _Radii(radii), rev, cfg["kernel"], Q(0.9), [0] * nw, [False] * nw, mask_index,
                            [Q(1)] * nw, cfg["normalize_windows"])
    return cells, V, nw


def compare(name, M, docs, est, cfg):
    cells, V, nw = expected_matrix(docs, est, cfg)
    ok = M.shape == (V, V * nw)
    check(name + ": shape (n_vocab, n_vocab * n_blocks)", ok, detail={"got": list(M.shape), "want": [V, V * nw]})
    if ok:
        Md = M.toarray()
        check(name + ": cell-wise equality with the windowed kernel-weighted count definition",
              sand(*[Md[a, c] == cells[(a, c)] for (a, c) in sorted(cells)]))
    return ok


def h_token_class(ex, fit_lens, tr_lens, cfg, props):
    tc = TC()
    X = docs_of("x", fit_lens)
    Y = docs_of("y", tr_lens)
    register("X", X); register("Y", Y)
    kw = dict(window_radii=cfg["radii"] if len(cfg["radii"]) > 1 else cfg["radii"][0],
              window_orientations=cfg["orientations"] if len(cfg["orientations"]) > 1 else cfg["orientations"][0],
              kernel_functions=cfg["kernel"] if len(cfg["radii"]) == 1 else [cfg["kernel"]] * len(cfg["radii"]),
              window_functions=cfg.get("window_function", "fixed") if len(cfg["radii"]) == 1 else [cfg.get("window_function", "fixed")] * len(cfg["radii"]),
              normalize_windows=cfg["normalize_windows"],
              n_threads=cfg.get("n_threads", 1), coo_initial_memory=cfg.get("mem", "0.5 GiB"))
    if cfg.get("mask") is not None:
        kw["mask_string"] = cfg["mask"]
        kw["nullify_mask"] = bool(cfg.get("nullify"))
    if cfg.get("excluded"):
        e = fresh_int("excl", 0, None)
        register("excluded", e)
        kw["excluded_tokens"] = SymSet([e])

    def make():
        k2 = dict(kw)
        if cfg.get("excluded"):
            k2["excluded_tokens"] = SymSet([e])
        return tc.TokenCooccurrenceVectorizer(**k2)
    est = make()
    try:
        M = est.fit_transform(X)
    except ValueError as exc:
        if "empty" in str(exc):
            raise PathAbort()
        core.EX.fault(exc)
        raise PathAbort()
    except (PathAbort, core.BoundHit, core.Unmodelled):
        raise
    except Exception as exc:
        core.EX.fault(exc)
        raise PathAbort()
    compare("fit_transform", M, X, est, cfg)
    vocab = est.token_label_dictionary_
    V = len(vocab)
    if "C03" in props:
        # declared block order and column naming
        col = est.column_label_dictionary_
        blk = 0
        conds = []
        for i, o in enumerate(cfg["orientations"]):
            for pre in (["pre_", "post_"] if o == "directional" else (["pre_"] if o == "before" else ["post_"])):
                for t, idx in vocab.items():
                    lab = pre + str(i) + "_" + str(t)
                    conds.append(lab in col and bool(col[lab] == idx + blk * V))
                blk += 1
        check("each (window, orientation) pair occupies its own column block in the declared order", all(conds))
    if cfg.get("mask") is not None and "C14" in props:
        check("the mask is exactly one extra vocabulary entry with the last index", (cfg["mask"] in vocab) and bool(vocab[cfg["mask"]] == V - 1))
        if cfg.get("nullify"):
            Md = M.toarray()
            nw = M.shape[1] // V
            check("nullify_mask: the mask row and every mask column are zero",
                  sand(*([Md[V - 1, c] == 0 for c in range(M.shape[1])] + [Md[a, (V - 1) + b * V] == 0 for a in range(V) for b in range(nw)])))
    if "C02" in props:
        est2 = make()
        r = call(est2.fit, X)
        check("fit returns the estimator itself", r is est2)
        M2 = est2.cooccurrences_
        ok = M2.shape == M.shape
        check("fit(X).cooccurrences_ has the shape of fit_transform(X)", ok)
        if ok:
            check("fit(X) builds the same matrix as fit_transform(X)", sand(*[a == b for a, b in zip(M2.toarray()._flat(), M.toarray()._flat())]))
        T0 = call(est2.transform, X)
        ok = T0.shape == M.shape
        check("fit(X).transform(X) has the shape of fit_transform(X)", ok)
        if ok:
            check("fit(X).transform(X) == fit_transform(X)", sand(*[a == b for a, b in zip(T0.toarray()._flat(), M.toarray()._flat())]))
    if Y:
        before = [(k, v) for k, v in est.token_label_dictionary_.items()]
        T = call(est.transform, Y)
        compare("transform", T, Y, est, cfg)
        after = [(k, v) for k, v in est.token_label_dictionary_.items()]
        if "C13" in props:
            check("transform leaves the fitted vocabulary unchanged",
                  len(before) == len(after) and all(a[0] is b[0] and a[1] == b[1] for a, b in zip(before, after)))
            T2 = call(est.transform, Y)
            check("a repeated transform returns the same matrix", T2.shape == T.shape and sand(*[a == b for a, b in zip(T2.toarray()._flat(), T.toarray()._flat())]))
        return {"fit": M, "transform": T}
    return {"fit": M}


def cases(tier, props=("C03", "C02", "C01", "C14", "C13"), which="all"):
    base = dict(radii=[2], orientations=["directional"], kernel="flat", normalize_windows=True)
    G = []
    if tier == "quick":
        G.append(((3,), (2,), dict(base)))
        G.append(((2, 1), (), dict(base, orientations=["after"], kernel="harmonic", normalize_windows=False, radii=[1])))
        G.append(((3,), (2,), dict(base, radii=[1, 2], orientations=["before", "after"], kernel="geometric", normalize_windows=False)))
        # a before / after window declared after a directional one: window index and column block diverge
        G.append(((2,), (), dict(base, radii=[1, 1], orientations=["directional", "before"], normalize_windows=False)))
        G.append(((2,), (), dict(base, radii=[1, 2, 1], orientations=["after", "directional", "after"], normalize_windows=False)))
        G.append(((3,), (2,), dict(base, mask=MASK, excluded=True, orientations=["after"], normalize_windows=False)))
        G.append(((3,), (), dict(base, mask=MASK, nullify=True, excluded=True, orientations=["directional"], radii=[1])))
        G.append(((2, 2), (1,), dict(base, n_threads=2, orientations=["after"], normalize_windows=False, mem="1k")))
        # frequency-dependent ('variable') window radii, with and without a nullified mask
        G.append(((4,), (), dict(base, window_function="variable", radii=[2], orientations=["after"], normalize_windows=False)))
        G.append(((3,), (), dict(base, window_function="variable", radii=[2], mask=MASK, nullify=True, excluded=True, orientations=["directional"], normalize_windows=False)))
        G.append(((3,), (), dict(base, window_function="variable", radii=[2], mask=MASK, nullify=True, excluded=True, orientations=["after"], normalize_windows=False)))
        G.append(((1, 1, 2), (), dict(base, n_threads=3, orientations=["before"], radii=[1])))
    else:
        for f, t in (((3,), (2,)), ((2, 2), (2,)), ((4,), (1, 1)), ((1, 2, 1), (3,))):
            for k in ("flat", "harmonic", "geometric"):
                for nwn in (False, True):
                    G.append((f, t, dict(base, kernel=k, normalize_windows=nwn)))
                    G.append((f, t, dict(base, kernel=k, normalize_windows=nwn, radii=[1, 2], orientations=["before", "directional"])))
                    G.append((f, t, dict(base, kernel=k, normalize_windows=nwn, radii=[2, 1], orientations=["directional", "after"])))
            for nt in (2, 3, 4):
                for mem in ("1k", "0.5 GiB"):
                    G.append((f, t, dict(base, n_threads=nt, mem=mem, orientations=["after"], normalize_windows=False)))
            G.append((f, t, dict(base, mask=MASK, excluded=True, orientations=["after"], normalize_windows=False)))
            G.append((f, t, dict(base, mask=MASK, nullify=True, excluded=True)))
            G.append((f, t, dict(base, excluded=True)))
            for r in (2, 4):          # even sizes: no radius falls on a .5 rounding boundary (float32 frequencies vs exact arithmetic)
                G.append((f, t, dict(base, window_function="variable", radii=[r], orientations=["after"], normalize_windows=False)))
                G.append((f, t, dict(base, window_function="variable", radii=[r], mask=MASK, nullify=True, excluded=True, normalize_windows=False)))
    cs = []
    for f, t, cfg in G:
        if which == "threads" and cfg.get("n_threads", 1) == 1 and cfg.get("mem") is None:
            continue
        if which == "mask" and cfg.get("mask") is None and not cfg.get("excluded"):
            continue
        name = "token_class[fit=%s,tr=%s,%s]" % ("+".join(map(str, f)), "+".join(map(str, t)) or "-",
                                                 ",".join("%s=%s" % (k, v) for k, v in sorted(cfg.items())))
        cs.append(Case(name, h_token_class, dict(fit_lens=list(f), tr_lens=list(t), cfg=cfg, props=list(props)),
                       replay="cooc:replay_token_class", witness="cooc:witness_token_class",
                       bounds={"fit document lengths": list(f), "transform document lengths": list(t), "configuration": cfg,
                               "tokens": "unconstrained integers"}, functions=FUNCS, max_witness=12,
                       shards=8 if sum(f) + sum(t) >= 5 else 1, shard_depth=8))
    return cs
