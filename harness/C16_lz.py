"""C16 -- LZ compression rows count each string's own parse phrases (also serves C01 / C12 for this class).

Real code: lempel_ziv_based_encode, counts_to_csr_data, LZCompressionVectorizer.fit_transform / transform.
With column hashing, make_hash is replaced by an arbitrary function into [0, max_columns) (uninterpreted: equal
phrases get equal values, nothing else is assumed); the murmur arithmetic itself is a separate bit-vector lemma.
"""
from symx.runner import Case
from symx import loader
from symx.api import *  # noqa
from symx.containers import SymStr, SymDict, sym_eq, sym_eq_expr
from symx.shims import numpy_shim as np

FUNCS = ["mixed_gram_vectorizer.lempel_ziv_based_encode", "mixed_gram_vectorizer.counts_to_csr_data",
         "mixed_gram_vectorizer.LZCompressionVectorizer.fit_transform", "mixed_gram_vectorizer.LZCompressionVectorizer.transform"]


def MG():
    return loader.load("vectorizers.mixed_gram_vectorizer")


def _strings(prefix, lens):
    return [SymStr([fresh_int("%s%d_%d" % (prefix, i, j), 1, 1000) for j in range(n)]) for i, n in enumerate(lens)]


def ref_parse(s, base, max_size, h=None):
    """reference LZ parse written from the statement: phrase -> count (insertion ordered), capped flag"""
    d = SymDict()
    for k, v in (base or []):
        d[k] = v
    size = len(d)
    capped = False
    start = 0
    for end in range(len(s)):
        ph = s[start:end]
        key = h(ph) if h else ph
        if key in d:
            d[key] = d[key] + 1
        elif size >= max_size:
            capped = True
            start = end
        else:
            d[key] = 1
            size += 1
            start = end
    return d, capped


def _row_check(name, M, i, parse, cols, ncols):
    """row i of M has, for every fitted column, the count of the phrase with that label in `parse` (0 if absent)"""
    Md = M.toarray()
    conds = []
    for label, j in cols.items():
        want = 0
        for ph, cnt in parse.items():
            want = want + ite(sym_eq_expr(ph, label), cnt, 0)
        conds.append(Md[i, j] == want)
    check(name, sand(*conds))


def h_lz(ex, fit_lens, tr_lens, max_dict_size, hashed, with_base):
    mg = MG()
    X = _strings("s", fit_lens)
    Y = _strings("u", tr_lens)
    register("X", X); register("Y", Y)
    base = None
    if with_base:
        c = fresh_int("basecount", 1, 3)
        bk = SymStr([fresh_int("basechar", 1, 1000)])
        register("base", [bk, c])
        base = SymDict([(bk, c)])
    table = SymDict()
    hf = None
    if hashed:
        ncols = int(fresh_int("max_columns", 2, 3))
        register("max_columns", ncols)

        def hf(ph):
            if ph not in table:
                table[ph] = fresh_int("hash", 0, ncols - 1)
            return table[ph]
        mg.make_hash = lambda size, seed: hf
    est = mg.LZCompressionVectorizer(max_dict_size=max_dict_size, max_columns=(ncols if hashed else None),
                                     base_dictionary=base, random_state=0)
    if hashed and with_base:
        raise Unmodelled("base dictionary with hashing is not part of this harness")
    M = call(est.fit_transform, list(X))
    cols = est.column_label_dictionary_
    check("fit_transform shape", M.shape == (len(X), len(cols)))
    if hashed:
        check("at most max_columns columns", len(cols) <= ncols)
    base_items = list(base.items()) if base else []
    base_total = sum(v for _, v in base_items) if base_items else 0
    for i, s in enumerate(X):
        parse, capped = ref_parse(s, base_items, max_dict_size, hf)
        _row_check("fit_transform row = counts of the string's own parse phrases", M, i, parse, cols, len(cols))
        if not capped:
            check("row total = len(string) + base counts when the cap is not reached",
                  np._sumlist(M.toarray()[i]._flat()) == len(s) + base_total)
    if Y:
        T = call(est.transform, list(Y))
        check("transform: one row per string with the fitted number of columns", T.shape == (len(Y), len(cols)))
        for i, s in enumerate(Y):
            parse, capped = ref_parse(s, base_items, max_dict_size, hf)
            _row_check("transform row = counts of the string's own parse phrases on the fitted columns", T, i, parse, cols, len(cols))
        # each row depends on its own string alone (C12): singleton transform gives the same row
        for i, s in enumerate(Y):
            T1 = call(est.transform, [s])
            check("row of a batch equals the singleton transform", sand(*[a == b for a, b in zip(T.toarray()[i]._flat(), T1.toarray()[0]._flat())]))
        return {"fit": M, "transform": T}
    return {"fit": M}


def cases(tier):
    cs = []
    if tier == "quick":
        grid = [((3,), (2,), 8, False, False), ((2, 2), (3,), 8, False, False), ((4,), (0, 2), 3, False, False),
                ((3,), (3,), 8, False, True), ((3,), (2,), 8, True, False), ((2, 1), (2,), 2, False, False), ((0, 1), (1,), 8, False, False)]
    else:
        grid = [(f, t, m, h, b) for f in ((3,), (2, 2), (4,), (1, 3), (5,), (0, 2, 2)) for t in ((2,), (3,), (0, 3), (2, 2))
                for m in (2, 3, 8) for h, b in ((False, False), (False, True), (True, False)) if sum(f) + sum(t) <= 7]
    for f, t, m, h, b in grid:
        cs.append(Case("lz[fit=%s,tr=%s,max_dict=%d,hash=%d,base=%d]" % ("+".join(map(str, f)), "+".join(map(str, t)), m, h, b),
                       h_lz, dict(fit_lens=list(f), tr_lens=list(t), max_dict_size=m, hashed=h, with_base=b),
                       replay="C16:replay_lz", witness=None if h else "C16:witness_lz",
                       bounds={"training string lengths": list(f), "transform string lengths": list(t), "max_dict_size": m,
                               "max_columns": "2..3 symbolic (hash = arbitrary function)" if h else None,
                               "base_dictionary": "one symbolic character with count 1..3" if b else None},
                       stubs=["make_hash -> arbitrary function into [0, max_columns)"] if h else [], functions=FUNCS))
    return cs
