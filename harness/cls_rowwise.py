"""Row-wise estimators without an oracle: BytePairEncoding, Histogram, InformationWeight, RowDenoising,
CountFeatureCompression (serves C12 and C02).

C12 (singleton differential): for an arbitrary fitted model and a symbolic batch, row i of transform(batch) equals
transform([item i]).  C02: fit returns the estimator and fit_transform(X) equals fit(X).transform(X) where the class
defines its own fit_transform.
"""
from symx.runner import Case
from symx import loader, core
from symx.api import *  # noqa
from symx.containers import SymStr
from symx.shims import numpy_shim as np
from symx.shims import scipy_shim as sp


def L(name):
    return loader.load("vectorizers." + name)


def _strings(prefix, lens):
    return [SymStr([fresh_int("%s%d_%d" % (prefix, i, j), 1, 1000) for j in range(n)]) for i, n in enumerate(lens)]


def _dense_rows(prefix, nr, nc, lo=0):
    return [[fresh_real("%s%d_%d" % (prefix, i, j), lo) for j in range(nc)] for i in range(nr)]


def _eq_rows(a, b):
    a, b = list(a), list(b)
    return len(a) == len(b) and sand(*[x == y for x, y in zip(a, b)])


def h_rowwise(ex, kind, fit_shape, batch_shape):
    if kind == "bpe":
        mg = L("mixed_gram_vectorizer")
        X, Y = _strings("x", fit_shape), _strings("y", batch_shape)
        register("X", X); register("Y", Y)
        est = mg.BytePairEncodingVectorizer(max_vocab_size=2, min_token_occurrence=1, return_type="matrix")
        r = call(est.fit, list(X))
        check("fit returns the estimator", r is est)
        T = call(est.transform, list(Y)).toarray()
        rows = [T[i]._flat() for i in range(len(Y))]
        singles = [call(est.transform, [y]).toarray()[0]._flat() for y in Y]
    elif kind == "histogram":
        v = L("_vectorizers")
        tr = [fresh_real("t%d" % i) for i in range(fit_shape[0])]
        assume(sor(*[a != b for a in tr for b in tr]))
        Y = [[fresh_real("y%d_%d" % (i, j)) for j in range(n)] for i, n in enumerate(batch_shape)]
        register("train", tr); register("Y", Y)
        est = v.HistogramVectorizer(n_components=2)
        r = call(est.fit, [list(tr)])
        check("fit returns the estimator", r is est)
        T = call(est.transform, [list(y) for y in Y])
        rows = [T[i]._flat() for i in range(len(Y))]
        singles = [call(est.transform, [list(y)])[0]._flat() for y in Y]
    elif kind in ("info_weight", "row_denoise"):
        nc = fit_shape[1]
        Xv = _dense_rows("x", fit_shape[0], nc)
        Yv = _dense_rows("y", batch_shape[0], nc)
        for row in Xv + Yv:
            assume(sum(row, Q(0)) > 0)
        for j in range(nc):
            assume(sum((row[j] for row in Xv), Q(0)) > 0)
        register("X", Xv); register("Y", Yv)
        if kind == "info_weight":
            est = L("transformers.info_weight").InformationWeightTransformer(prior_strength=Q(1, 10), approx_prior=False, weight_power=1)
        else:
            est = L("transformers.row_desnoise").RowDenoisingTransformer(em_precision=0.6)
        r = call(est.fit, sp.csr_matrix(np.array(Xv, dtype=np.float64)))
        check("fit returns the estimator", r is est)
        T = call(est.transform, sp.csr_matrix(np.array(Yv, dtype=np.float64))).toarray()
        rows = [T[i]._flat() for i in range(len(Yv))]
        singles = [call(est.transform, sp.csr_matrix(np.array([y], dtype=np.float64))).toarray()[0]._flat() for y in Yv]
        if kind == "row_denoise":
            # the class defines its own fit_transform: it must agree with fit followed by transform
            est2 = L("transformers.row_desnoise").RowDenoisingTransformer(em_precision=0.6)
            F = call(est2.fit_transform, sp.csr_matrix(np.array(Xv, dtype=np.float64))).toarray()
            G = call(est.transform, sp.csr_matrix(np.array(Xv, dtype=np.float64))).toarray()
            check("fit_transform(X) == fit(X).transform(X)", tuple(F.shape) == tuple(G.shape) and _eq_rows(F._flat(), G._flat()))
    elif kind == "count_feature_compression":
        cfc = L("transformers.count_feature_compression")
        nc = fit_shape[1]
        Yv = _dense_rows("y", batch_shape[0], nc)
        for row in Yv:
            assume(sum((v * v for v in row), Q(0)) > 0)
        register("Y", Yv)
        est = cfc.CountFeatureCompressionTransformer(n_components=1, rescaling_power=1)
        comp = [[fresh_real("comp%d" % j) for j in range(nc)]]
        scal = [fresh_real("scale", 1)]
        register("components", comp); register("scaling", scal)
        est.components_ = np.array(comp, dtype=np.float64)
        est.component_scaling_ = np.array(scal, dtype=np.float64)
        T = call(est.transform, sp.csr_matrix(np.array(Yv, dtype=np.float64)))
        T = T if isinstance(T, np.ndarray) else T.toarray()
        rows = [T[i]._flat() for i in range(len(Yv))]
        singles = []
        for y in Yv:
            S = call(est.transform, sp.csr_matrix(np.array([y], dtype=np.float64)))
            S = S if isinstance(S, np.ndarray) else S.toarray()
            singles.append(S[0]._flat())
    else:
        raise ValueError(kind)
    for i, (a, b) in enumerate(zip(rows, singles)):
        check("row %d of the batch equals the singleton transform of item %d" % (i, i), _eq_rows(a, b))
    return None


def cases(tier):
    if tier == "quick":
        G = [("bpe", (3,), (2, 1)), ("histogram", (3,), (2, 1)), ("info_weight", (2, 2), (2,)), ("row_denoise", (2, 2), (2,)),
             ("count_feature_compression", (2, 2), (2,))]
    else:
        G = [("bpe", (3,), (2, 1)), ("bpe", (4,), (2, 2, 1)), ("bpe", (2, 2), (3, 1)), ("histogram", (3,), (2, 1)), ("histogram", (4,), (2, 2, 1)),
             ("info_weight", (2, 2), (3,)), ("info_weight", (3, 2), (2,)), ("row_denoise", (2, 2), (3,)), ("row_denoise", (2, 3), (2,)),
             ("count_feature_compression", (2, 2), (3,)), ("count_feature_compression", (2, 3), (2,))]
    cs = []
    for kind, f, b in G:
        cs.append(Case("rowwise[%s,fit=%s,batch=%s]" % (kind, f, b), h_rowwise, dict(kind=kind, fit_shape=f, batch_shape=b),
                       replay="rowwise:replay_rowwise", fast_ms=500,
                       functions=["<estimator>.fit", "<estimator>.transform"],
                       assumptions=["row_denoise: EM fix-point loop not unrolled (em_precision = 0.6)",
                                    "count_feature_compression: fitted state constructed directly (components / scaling symbolic), rescaling_power = 1",
                                    "info_weight: weight_power = 1; matrices with positive row and column sums"],
                       bounds={"estimator": kind, "fit shape": list(f), "batch shape": list(b)}))
    return cs
