"""C04 group 1 -- the COO accumulator never loses, duplicates or mis-credits an event.

Real code: coo_utils.coo_append / coo_sum_duplicates / merge_sum_duplicates / merge_all_sum_duplicates /
coo_increase_mem, driven exactly as the four numba_build_* drivers do (allocate, append K times rebinding the
returned accumulator, final coo_sum_duplicates + merge_all_sum_duplicates).  The sort threshold
COO_QUICKSORT_LIMIT is lowered (module global) so that every threshold is crossed within the bound.
"""
import itertools
from symx.runner import Case
from symx import loader
from symx.api import *  # noqa
from symx.shims import numpy_shim as np

FUNCS = ["coo_utils.coo_append", "coo_utils.coo_sum_duplicates", "coo_utils.merge_sum_duplicates",
         "coo_utils.merge_all_sum_duplicates", "coo_utils.coo_increase_mem"]


def new_coo(cu, cap):
    import math
    return cu.CooArray(
        np.zeros(cap, dtype=np.int32), np.zeros(cap, dtype=np.int32), np.zeros(cap, dtype=np.float32),
        np.zeros(cap, dtype=np.int64), np.zeros(1, dtype=np.int64),
        np.zeros(2 * np.int64(np.ceil(np.log2(cap))), dtype=np.int64), np.zeros(1, dtype=np.int64))


def h_accumulate(ex, cap, limit, K, nkeys):
    cu = loader.load("vectorizers.coo_utils")
    cu.COO_QUICKSORT_LIMIT = limit
    coo = new_coo(cu, cap)
    keys = [fresh_int("key%d" % i, 0, nkeys - 1) for i in range(K)]
    vals = [fresh_real("val%d" % i, None, None) for i in range(K)]
    for v in vals:
        assume(v > 0)
    register("keys", keys); register("vals", vals)
    for k, v in zip(keys, vals):
        # row / col are functions of the key, as in the drivers (key = col + array_mul * row)
        coo = call(cu.coo_append, coo, (k, 2 * k + 1, v, k))
    call(cu.coo_sum_duplicates, coo)
    call(cu.merge_all_sum_duplicates, coo)
    n = coo.ind[0]
    check("fill pointer within the buffer", sand(n >= 0, n <= coo.key.shape[0]))
    n = int(n)
    okey, oval, orow, ocol = coo.key[:n], coo.val[:n], coo.row[:n], coo.col[:n]
    conds = []
    for kk in range(nkeys):
        exp = Q(0)
        for k, v in zip(keys, vals):
            exp = exp + ite(k == kk, v, Q(0))
        got = Q(0)
        cnt = 0
        for j in range(n):
            got = got + ite(okey[j] == kk, to_real(oval[j]), Q(0))
            cnt = cnt + ite(okey[j] == kk, 1, 0)
        conds.append(got == exp)
        conds.append(cnt <= 1)
    check("per key: accumulated value equals the sum of appended values, key stored at most once", sand(*conds))
    check("row/col stored with each key are the key's row/col",
          sand(*[sand(orow[j] == okey[j], ocol[j] == 2 * okey[j] + 1) for j in range(n)]))
    return {"key": okey, "val": oval}


def h_merge_step(ex, occ, lens, tail, slack):
    """One inductive step of the run stack: merge_sum_duplicates from an ARBITRARY state satisfying the representation
    invariant of the accumulator (a binary counter of sorted runs), as left by coo_sum_duplicates before it calls it.

    occ[i] (i = 0 .. depth-1, the top level is always occupied) says whether level i holds a run, lens[i] its length.
    With b_i = |min[i]|:  0 = b_depth <= ... <= b_0 <= ind;  an occupied level i holds the run [b_{i+1}, b_i) with
    strictly increasing keys and min[i] = b_i > 0;  an empty level k has min[k] = -b_j for the nearest occupied level
    j > k;  [b_0, ind) is the freshly sorted, de-duplicated tail;  slots >= ind hold arbitrary stale data.
    Histories of any length reach only such states, so one step from all of them covers every history."""
    cu = loader.load("vectorizers.coo_utils")
    depth = len(occ)
    assert occ[-1]
    n_used = sum(l for o, l in zip(occ, lens) if o) + tail
    cap = n_used + slack
    nmin = max(2 * depth + 2, 4)
    key = [fresh_int("key%d" % j, 0, 5) for j in range(cap)]
    val = [fresh_real("val%d" % j) for j in range(cap)]
    mins = [0] * nmin
    pos = 0
    bounds = []
    for i in range(depth - 1, -1, -1):
        if occ[i]:
            a, b = pos, pos + lens[i]
            for j in range(a, b - 1):
                assume(key[j] < key[j + 1])
            pos = b
            mins[i] = b
        else:
            mins[i] = -pos
        bounds.append(pos)
    a, b = pos, pos + tail
    for j in range(a, b - 1):
        assume(key[j] < key[j + 1])
    ind = b
    for j in range(ind):
        assume(val[j] > 0)
    register("keys", key); register("vals", val); register("min", list(mins)); register("ind", ind); register("depth", depth)
    coo = cu.CooArray(np.array(key, dtype=np.int32), np.array([2 * k + 1 for k in key], dtype=np.int32),
                      np.array(val, dtype=np.float32), np.array(key, dtype=np.int64), np.array([ind], dtype=np.int64),
                      np.array(mins, dtype=np.int64), np.array([depth], dtype=np.int64))
    call(cu.merge_sum_duplicates, coo)
    n2 = coo.ind[0]
    check("fill pointer stays within the buffer", sand(n2 >= 0, n2 <= cap))
    n2 = int(n2)
    probe = fresh_int("probe_key", 0, 5)
    before = sum((ite(key[j] == probe, val[j], Q(0)) for j in range(ind)), Q(0))
    after = sum((ite(coo.key[j] == probe, to_real(coo.val[j]), Q(0)) for j in range(n2)), Q(0))
    check("per key: the accumulated value is preserved by the merge", before == after)
    check("row / col stay with their key", sand(*[sand(coo.row[j] == coo.key[j], coo.col[j] == 2 * coo.key[j] + 1) for j in range(n2)]))
    # the invariant is re-established: the unsorted tail is empty, boundaries are ordered, occupied runs are sorted
    d2 = int(coo.depth[0])
    m2 = [coo.min[i] for i in range(d2 + 1)]
    check("after the merge the unsorted tail is empty (|min[0]| == ind)", abs(m2[0]) == n2)
    conds = [m2[d2 - 1] > 0] if d2 >= 1 else [False]
    for i in range(d2):
        lo = abs(m2[i + 1]) if i + 1 < d2 else 0
        conds.append(lo <= abs(m2[i]))
        if bool(m2[i] > 0):
            lo_c, hi_c = int(lo), int(m2[i])
            conds.append(sand(*[coo.key[j] < coo.key[j + 1] for j in range(lo_c, hi_c - 1)]))
    check("the representation invariant holds again (top level occupied, ordered boundaries, sorted runs)", sand(*conds))
    return {"key": coo.key[:n2], "val": coo.val[:n2]}


def h_chunks(ex, n_docs, kind):
    """_generate_chunk_boundaries for every vector of document sizes (symbolic, any magnitude) and every n_threads:
    the chunks are a contiguous, disjoint, complete cover of range(len(data)) -- so the per-chunk matrices add up to the
    matrix of the whole corpus whatever the number of threads"""
    from symx.containers import SymLenList
    if kind == "multiset":
        cls = loader.load("vectorizers.multi_token_cooccurence_vectorizer").MultiSetCooccurrenceVectorizer
    else:
        cls = loader.load("vectorizers.base_cooccurrence_vectorizer").BaseCooccurrenceVectorizer
    sizes = [fresh_int("size%d" % i, 0, 10 ** 9) for i in range(n_docs)]
    assume(sum(sizes, 0) >= 1)
    nt = fresh_int("n_threads", 1, 64)
    register("sizes", sizes); register("n_threads", nt)
    data = []
    for sz in sizes:
        if kind == "multiset":
            inner = SymLenList([0])          # one multiset per document, carrying the whole size
            inner._symx_len = sz
            data.append([inner])
        else:
            d = SymLenList([0])
            d._symx_len = sz
            data.append(d)
    chunks = call(cls._generate_chunk_boundaries, None, data, nt)
    check("at least one chunk", len(chunks) >= 1)
    if not chunks:
        return None
    conds = [chunks[0][0] == 0, chunks[-1][1] == n_docs]
    for (a, b), (c, d) in zip(chunks, chunks[1:]):
        conds.append(b == c)
    for a, b in chunks:
        conds.append(sand(a >= 0, a <= b, b <= n_docs))
    check("chunks are a contiguous, disjoint, complete cover of the documents", sand(*conds))
    return {"chunks": [[a, b] for a, b in chunks]}


def h_coo_sizes(ex, n_wide, kind):
    """_set_coo_sizes for every corpus size, window radius / offset, coo_initial_memory and n_threads: every accumulator
    gets at least two slots (log2 of the capacity and the merge stack are defined) -- the buffer-sizing premise of
    'results do not depend on coo_initial_memory / n_threads'"""
    from symx.containers import SymLenList
    if kind == "multiset":
        cls = loader.load("vectorizers.multi_token_cooccurence_vectorizer").MultiSetCooccurrenceVectorizer
    else:
        cls = loader.load("vectorizers.base_cooccurrence_vectorizer").BaseCooccurrenceVectorizer
    est = cls.__new__(cls)
    radii = [fresh_int("radius%d" % i, 1, 100) for i in range(n_wide)]
    offs = [fresh_int("offset%d" % i, 0, 100) for i in range(n_wide)]
    for r_, o_ in zip(radii, offs):
        assume(o_ <= r_)
    assume(sum((r_ - o_ for r_, o_ in zip(radii, offs)), 0) >= 1)       # some window is non-empty
    est.window_radii = list(radii)
    est._window_radii = np.array(radii, dtype=np.int64)
    est._n_wide = n_wide
    est._full_kernel_args = [(None, False, o_) for o_ in offs]
    est.coo_initial_bytes = fresh_int("coo_initial_bytes", 1, 2 ** 40)
    est.n_threads = fresh_int("n_threads", 1, 256)
    size = fresh_int("corpus_tokens", 1, 10 ** 9)
    register("radii", radii); register("offsets", offs); register("coo_initial_bytes", est.coo_initial_bytes)
    register("n_threads", est.n_threads); register("corpus_tokens", size)
    doc = SymLenList([0])
    doc._symx_len = size
    data = [[doc]] if kind == "multiset" else [doc]
    call(est._set_coo_sizes, data)
    cs_ = est._coo_sizes
    check("one capacity per window", tuple(cs_.shape) == (n_wide,))
    check("every accumulator capacity is at least 2", sand(*[cs_[i] >= 2 for i in range(n_wide)]))
    return None


def cases(tier):
    cs = []
    if tier == "quick":
        grid = [(4, 2, 5, 2), (5, 2, 6, 2), (6, 3, 6, 2), (8, 3, 6, 3), (8, 4, 6, 2), (5, 3, 5, 3), (7, 2, 6, 2),
                (4, 2, 6, 3)]       # as many distinct keys as slots: the buffer stays full after a flush and must grow
    else:
        grid = [(c, l, k, nk) for c in (4, 5, 6, 7, 8, 10, 12) for l in (2, 3, 4) for k, nk in ((7, 2), (8, 3))]
    for cap, limit, K, nkeys in grid:
        cs.append(Case("accumulate[cap=%d,limit=%d,K=%d,keys=%d]" % (cap, limit, K, nkeys), h_accumulate,
                       dict(cap=cap, limit=limit, K=K, nkeys=nkeys), replay="C04:replay_accumulate", witness="C04:witness_accumulate",
                       env={"SYMX_COO_LIMIT": str(limit)},
                       bounds={"capacity": cap, "COO_QUICKSORT_LIMIT": limit, "appends": K, "distinct keys": nkeys, "values": "reals > 0"},
                       assumptions=["COO_QUICKSORT_LIMIT lowered from 65536 to %d (module global, also frozen into the compiled code for the replay)" % limit],
                       functions=FUNCS))
    for nd, kind in ([(3, "token"), (2, "multiset")] if tier == "quick" else [(3, "token"), (4, "token"), (5, "token"), (3, "multiset"), (4, "multiset")]):
        cs.append(Case("chunk_boundaries[docs=%d,%s]" % (nd, kind), h_chunks, dict(n_docs=nd, kind=kind), replay="C04:replay_chunks", witness="C04:witness_chunks",
                       functions=["base_cooccurrence_vectorizer.BaseCooccurrenceVectorizer._generate_chunk_boundaries",
                                  "multi_token_cooccurence_vectorizer.MultiSetCooccurrenceVectorizer._generate_chunk_boundaries"], max_witness=10,
                       bounds={"documents": nd, "document sizes": "symbolic 0 .. 10^9", "n_threads": "symbolic 1 .. 64"}))
    for nw, kind in ([(1, "token"), (2, "token")] if tier == "quick" else [(1, "token"), (2, "token"), (3, "token"), (1, "multiset"), (2, "multiset")]):
        cs.append(Case("coo_sizes[windows=%d,%s]" % (nw, kind), h_coo_sizes, dict(n_wide=nw, kind=kind), replay="C04:replay_coo_sizes",
                       functions=["base_cooccurrence_vectorizer.BaseCooccurrenceVectorizer._set_coo_sizes"],
                       bounds={"windows": nw, "radii / offsets": "symbolic 0..100", "coo_initial_bytes": "symbolic 1 .. 2^40", "n_threads": "symbolic 1..256",
                               "corpus": "symbolic 1 .. 10^9 tokens"}))
    # inductive step over run-stack states: every occupancy pattern of a stack of depth <= 3 (4 thorough)
    pats = []
    for depth in ((1, 2, 3) if tier == "quick" else (1, 2, 3, 4)):
        for occ in itertools.product((False, True), repeat=depth - 1):
            pats.append(list(occ) + [True])
    lens_opts = [1, 2] if tier == "quick" else [1, 2, 3]
    for occ in pats:
        for L in lens_opts:
            for tail in ((1, 2) if tier == "quick" else (1, 2, 3)):
                if tier == "quick" and (L + tail > 3 or (len(occ) == 3 and L + tail > 2)):
                    continue        # the quick tier keeps the small states of every occupancy pattern
                lens = [L if o else 0 for o in occ]
                cs.append(Case("merge_step[occupied=%s,run=%d,tail=%d]" % ("".join("1" if o else "0" for o in occ), L, tail), h_merge_step,
                               dict(occ=occ, lens=lens, tail=tail, slack=2), replay="C04:replay_merge_step", witness="C04:witness_merge_step",
                               functions=FUNCS, max_witness=3,
                               bounds={"run stack occupancy (level 0 first)": occ, "run length": L, "sorted tail length": tail,
                                       "keys": "symbolic in 0..5", "values": "reals > 0", "stale slots": 2},
                               assumptions=["representation invariant of the run stack as stated in h_merge_step (derived from merge_sum_duplicates; every state the drivers can reach satisfies it)"]))
    return cs
