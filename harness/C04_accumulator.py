"""C04 group 1 -- the COO accumulator never loses, duplicates or mis-credits an event.

Real code: coo_utils.coo_append / coo_sum_duplicates / merge_sum_duplicates / merge_all_sum_duplicates /
coo_increase_mem, driven exactly as the four numba_build_* drivers do (allocate, append K times rebinding the
returned accumulator, final coo_sum_duplicates + merge_all_sum_duplicates).  The sort threshold
COO_QUICKSORT_LIMIT is lowered (module global) so that every threshold is crossed within the bound.
"""
import itertools
from symx.runner import Case
from symx import loader
from symx.api import *  # noqa
from symx.shims import numpy_shim as np

FUNCS = ["coo_utils.coo_append", "coo_utils.coo_sum_duplicates", "coo_utils.merge_sum_duplicates",
         "coo_utils.merge_all_sum_duplicates", "coo_utils.coo_increase_mem"]


def new_coo(cu, cap):
    import math
    return cu.CooArray(
        np.zeros(cap, dtype=np.int32), np.zeros(cap, dtype=np.int32), np.zeros(cap, dtype=np.float32),
        np.zeros(cap, dtype=np.int64), np.zeros(1, dtype=np.int64),
        np.zeros(2 * np.int64(np.ceil(np.log2(cap))), dtype=np.int64), np.zeros(1, dtype=np.int64))


def h_accumulate(ex, cap, limit, K, nkeys):
    cu = loader.load("vectorizers.coo_utils")
    cu.COO_QUICKSORT_LIMIT = limit
    coo = new_coo(cu, cap)
    keys = [fresh_int("key%d" % i, 0, nkeys - 1) for i in range(K)]
    vals = [fresh_real("val%d" % i, None, None) for i in range(K)]
    for v in vals:
        assume(v > 0)
    register("keys", keys); register("vals", vals)
    for k, v in zip(keys, vals):
        # row / col are functions of the key, as in the drivers (key = col + array_mul * row)
        coo = call(cu.coo_append, coo, (k, 2 * k + 1, v, k))
    call(cu.coo_sum_duplicates, coo)
    call(cu.merge_all_sum_duplicates, coo)
    n = coo.ind[0]
    check("fill pointer within the buffer", sand(n >= 0, n <= coo.key.shape[0]))
    n = int(n)
    okey, oval, orow, ocol = coo.key[:n], coo.val[:n], coo.row[:n], coo.col[:n]
    conds = []
    for kk in range(nkeys):
        exp = Q(0)
        for k, v in zip(keys, vals):
            exp = exp + ite(k == kk, v, Q(0))
        got = Q(0)
        cnt = 0
        for j in range(n):
            got = got + ite(okey[j] == kk, to_real(oval[j]), Q(0))
            cnt = cnt + ite(okey[j] == kk, 1, 0)
        conds.append(got == exp)
        conds.append(cnt <= 1)
    check("per key: accumulated value equals the sum of appended values, key stored at most once", sand(*conds))
    check("row/col stored with each key are the key's row/col",
          sand(*[sand(orow[j] == okey[j], ocol[j] == 2 * okey[j] + 1) for j in range(n)]))
    return {"key": okey, "val": oval}


def cases(tier):
    cs = []
    if tier == "quick":
        grid = [(4, 2, 5, 2), (5, 2, 6, 2), (6, 3, 6, 2), (8, 3, 6, 3), (8, 4, 6, 2), (5, 3, 5, 3), (7, 2, 6, 2)]
    else:
        grid = [(c, l, k, nk) for c in (4, 5, 6, 7, 8, 10, 12) for l in (2, 3, 4) for k, nk in ((7, 2), (8, 3))]
    for cap, limit, K, nkeys in grid:
        cs.append(Case("accumulate[cap=%d,limit=%d,K=%d,keys=%d]" % (cap, limit, K, nkeys), h_accumulate,
                       dict(cap=cap, limit=limit, K=K, nkeys=nkeys), replay="C04:replay_accumulate", witness="C04:witness_accumulate",
                       env={"SYMX_COO_LIMIT": str(limit)},
                       bounds={"capacity": cap, "COO_QUICKSORT_LIMIT": limit, "appends": K, "distinct keys": nkeys, "values": "reals > 0"},
                       assumptions=["COO_QUICKSORT_LIMIT lowered from 65536 to %d (module global, also frozen into the compiled code for the replay)" % limit],
                       functions=FUNCS))
    return cs
