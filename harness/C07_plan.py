"""C07 -- the exact transport plan is a feasible, optimal coupling.

What is decided here is everything the repository contributes around the network simplex:
  * transport_plan / get_transport_plan (repo) run on pynndescent's REAL allocate_graph_structures, initialize_supply,
    initialize_cost and arc_id (their source is loaded from the installed package through the same loader);
  * the pivoting loop (initialize_graph_structures, network_simplex_core) is replaced by its contract: it writes into
    node_arc_data.flow some non-negative flow that satisfies conservation for node_arc_data.supply on the arc list
    (source, target) and is optimal for node_arc_data.cost -- stated with node potentials y (reduced costs >= 0,
    complementary slackness), all fresh symbolic reals constrained by exactly that;
  * assertions on what transport_plan returns for symbolic p, q (>= 0, both summing to one, zeros allowed) and a
    symbolic non-negative cost: plan >= 0, row sums p, column sums q, and optimality for the USER's cost by a dual
    certificate (u_i + v_j <= cost[i, j], equality wherever plan[i, j] > 0): this holds iff the arc <-> cell mapping
    (arc_id, source / target, supply signs, cost placement) is the bijection the code assumes;
  * chunked_pairwise_distance writes every cell exactly once with dist(data1[i], data2[j]) for every row / column count
    and chunk size within the bound (the result buffer is np.empty: an unwritten cell is a fault);
  * both cost-orientation branches of lot_vectors_sparse_internal / lot_vectors_dense_internal hand transport_plan the
    row's normalised distribution, the reference distribution and cost[i, j] = dist(row vector i, reference vector j).
The optimality of the third-party pivoting loop itself is trusted (stated in the evidence).
"""
import sys
import ast
import types
import hashlib
import z3
from symx.runner import Case
from symx import loader, core
from symx.api import *  # noqa
from symx import values
from symx.shims import numpy_shim as np

PYN = "/venv/lib/python3.12/site-packages/pynndescent/optimal_transport.py"
FUNCS = ["linear_optimal_transport.transport_plan", "linear_optimal_transport.get_transport_plan",
         "linear_optimal_transport.chunked_pairwise_distance", "linear_optimal_transport.lot_vectors_sparse_internal",
         "linear_optimal_transport.lot_vectors_dense_internal",
         "pynndescent.optimal_transport.allocate_graph_structures", "pynndescent.optimal_transport.initialize_supply",
         "pynndescent.optimal_transport.initialize_cost", "pynndescent.optimal_transport.arc_id"]
STUBS = ["pynndescent.optimal_transport.initialize_graph_structures -> True (inputs are valid distributions by assumption)",
         "pynndescent.optimal_transport.network_simplex_core -> contract: writes a feasible, optimal flow (fresh reals constrained by conservation, non-negativity, node potentials with non-negative reduced costs and complementary slackness)"]


def _load_external(modname, path):
    loader.install()
    if modname in sys.modules and sys.modules[modname].__dict__.get("_symx_real") is True:
        return sys.modules[modname]
    src = open(path).read()
    tree = ast.fix_missing_locations(loader.Instr().visit(ast.parse(src, path)))
    m = types.ModuleType(modname)
    m.__file__ = path
    m._symx_real = True
    m.__dict__.update(loader.INJECT)
    sys.modules[modname] = m
    exec(compile(tree, path, "exec"), m.__dict__)
    loader.LOADED[modname] = (path, hashlib.sha1(src.encode()).hexdigest())
    return m


_SAVED = ("transport_plan", "initialize_graph_structures", "network_simplex_core", "chunked_pairwise_distance",
          "lot_vectors_sparse_internal", "lot_vectors_dense_internal", "normalize", "randomized_svd", "svd_flip", "str_to_bytes",
          "named_distances", "l2_normalize", "project_to_sphere_tangent_space", "tangent_vectors_scales", "cosine", "np")


def LOT():
    """the real modules, with every name a harness may have stubbed restored to the loaded original"""
    ot = _load_external("pynndescent.optimal_transport", PYN)
    lot = loader.load("vectorizers.linear_optimal_transport")
    if not hasattr(lot, "_symx_orig"):
        lot._symx_orig = {k: getattr(lot, k) for k in _SAVED if hasattr(lot, k)}
    for k, v in lot._symx_orig.items():
        setattr(lot, k, v)
    return ot, lot


def _simplex_contract(lot):
    """install the contract stubs for the pivoting loop into the loaded repo module"""
    rec = {}

    def initialize_graph_structures(graph, node_arc_data, spanning_tree):
        return True

    def network_simplex_core(node_arc_data, spanning_tree, graph, max_iter):
        ex = core.EX
        n_arcs, n_nodes = graph.n_arcs, graph.n_nodes
        src = [int(node_arc_data.source[a]) for a in range(n_arcs)]
        tgt = [int(node_arc_data.target[a]) for a in range(n_arcs)]
        f = [fresh_real("flow%d" % a, 0) for a in range(n_arcs)]
        y = [fresh_real("pot%d" % v) for v in range(n_nodes)]
        for v in range(n_nodes):
            out = sum((f[a] for a in range(n_arcs) if src[a] == v), Q(0))
            inn = sum((f[a] for a in range(n_arcs) if tgt[a] == v), Q(0))
            assume(out - inn == node_arc_data.supply[v])
        for a in range(n_arcs):
            rc = node_arc_data.cost[a] - y[src[a]] + y[tgt[a]]
            assume(rc >= 0)
            assume(simplies(f[a] > 0, rc == 0))
            node_arc_data.flow[a] = f[a]
        rec.update(src=src, tgt=tgt, y=y, f=f)
        return 0
    lot.initialize_graph_structures = initialize_graph_structures
    lot.network_simplex_core = network_simplex_core
    return rec


def h_plan(ex, n, m):
    ot, lot = LOT()
    rec = _simplex_contract(lot)
    p = [fresh_real("p%d" % i, 0) for i in range(n)]
    q = [fresh_real("q%d" % j, 0) for j in range(m)]
    assume(sum(p, Q(0)) == 1)
    assume(sum(q, Q(0)) == 1)
    cost = [[fresh_real("c%d_%d" % (i, j), 0) for j in range(m)] for i in range(n)]
    register("p", p); register("q", q); register("cost", cost)
    P = call(lot.transport_plan, np.array(p, dtype=np.float64), np.array(q, dtype=np.float64), np.array(cost, dtype=np.float64))
    check("plan has one row per source point and one column per target point", tuple(P.shape) == (n, m))
    check("plan entries are written (no uninitialised cell)", not has_poison(P))
    for i in range(n):
        for j in range(m):
            check("plan[%d, %d] >= 0" % (i, j), P[i, j] >= 0)
    for i in range(n):
        check("row %d sums to p[%d]" % (i, i), sum((P[i, j] for j in range(m)), Q(0)) == p[i])
    for j in range(m):
        check("column %d sums to q[%d]" % (j, j), sum((P[i, j] for i in range(n)), Q(0)) == q[j])
    # dual certificate for the user's cost, read off the potentials through the arc <-> cell correspondence the plan
    # was read with (weak duality makes the check sound whatever witness is used)
    y, src, tgt = rec["y"], rec["src"], rec["tgt"]
    graph = ot.allocate_graph_structures(n, m, False)[2]
    u = [y[src[ot.arc_id(i * m + 0, graph)]] for i in range(n)]
    v = [-y[tgt[ot.arc_id(0 * m + j, graph)]] for j in range(m)]
    for i in range(n):
        for j in range(m):
            check("dual feasibility u[%d] + v[%d] <= cost" % (i, j), u[i] + v[j] <= cost[i][j])
            check("complementary slackness at (%d, %d): the plan is optimal for the given cost" % (i, j),
                  simplies(P[i, j] > 0, u[i] + v[j] == cost[i][j]))
    return None


_D = {}


def _dist(sym=True):
    """sym=False: uninterpreted distance between two vectors; sym=True: the interpreted weighted L1 metric the replay
    driver uses as well (so that a counterexample about the cost matrix reproduces with the same numbers)"""
    def udist(a, b):
        a = [values.to_real(x) for x in np._A(a)._flat()]
        b = [values.to_real(x) for x in np._A(b)._flat()]
        return values.ufun("D%d" % len(a), *(a + b))

    def l1(a, b):
        a = [values.to_real(x) for x in np._A(a)._flat()]
        b = [values.to_real(x) for x in np._A(b)._flat()]
        return sum((abs(x - y) * Q(4 + k, 4) for k, (x, y) in enumerate(zip(a, b))), Q(0))
    return l1 if sym else udist


def h_chunked(ex, rows, cols, dim):
    ot, lot = LOT()
    chunk = int(fresh_int("chunk_size", 1, max(rows, cols) + 1))
    register("chunk_size", chunk)
    A = [[fresh_real("a%d_%d" % (i, k)) for k in range(dim)] for i in range(rows)]
    B = [[fresh_real("b%d_%d" % (j, k)) for k in range(dim)] for j in range(cols)]
    register("A", A); register("B", B)
    dist = _dist(sym=False)
    a = np.array(A, dtype=np.float64) if rows else np.zeros((0, dim), np.float64)
    b = np.array(B, dtype=np.float64) if cols else np.zeros((0, dim), np.float64)
    R = call(lot.chunked_pairwise_distance, a, b, dist=dist, chunk_size=chunk)
    check("result shape (rows, cols)", tuple(R.shape) == (rows, cols))
    check("every cell is written (the buffer is np.empty)", not has_poison(R))
    if not has_poison(R):
        for i in range(rows):
            for j in range(cols):
                check("cell = dist(data1[i], data2[j])", R[i, j] == dist(A[i], B[j]))
    return None


def h_orientation(ex, variant, n_row, n_ref, dim):
    """cost orientation: which arguments reach transport_plan from the internal LOT kernels"""
    ot, lot = LOT()
    calls = []

    def transport_plan(p, q, cost, max_iter=100000):
        calls.append((p.copy(), q.copy(), cost.copy()))
        n, m = p.shape[0], q.shape[0]
        return np.array([[fresh_real("plan%d_%d" % (i, j), 0) for j in range(m)] for i in range(n)], dtype=np.float64)
    lot.transport_plan = transport_plan
    dist = _dist(sym=True)
    vec = [[fresh_real("x%d_%d" % (i, k)) for k in range(dim)] for i in range(n_row)]
    ref = [[fresh_real("r%d_%d" % (j, k)) for k in range(dim)] for j in range(n_ref)]
    w = [fresh_real("w%d" % i, 0) for i in range(n_row)]
    rd = [fresh_real("rd%d" % j) for j in range(n_ref)]
    for x in rd:
        assume(x > 0)
    assume(sum(w, Q(0)) > 0)
    register("vectors", vec); register("reference", ref); register("weights", w); register("reference_distribution", rd)
    try:
        if variant == "sparse":
            call(lot.lot_vectors_sparse_internal, np.array([0, n_row], dtype=np.int32), np.array(list(range(n_row)), dtype=np.int32),
                 np.array(w, dtype=np.float64), np.array(vec, dtype=np.float64), np.array(ref, dtype=np.float64),
                 np.array(rd, dtype=np.float64), metric=dist, max_distribution_size=256, chunk_size=256, spherical_vectors=False)
        else:
            from symx.shims import numba_shim
            sv = numba_shim.typed.List()
            sv.append(np.array(vec, dtype=np.float64))
            sd = numba_shim.typed.List()
            sd.append(np.array(w, dtype=np.float64))
            call(lot.lot_vectors_dense_internal, sv, sd, np.array(ref, dtype=np.float64), np.array(rd, dtype=np.float64),
                 metric=dist, max_distribution_size=256, chunk_size=256, spherical_vectors=False)
    finally:
        pass
    check("transport_plan is called exactly once for the row", len(calls) == 1)
    if len(calls) != 1:
        return None
    p, q, cost = calls[0]
    tot = sum(w, Q(0))
    check("first marginal = the row's weights normalised to one", tuple(p.shape) == (n_row,) and sand(*[p[i] == w[i] / tot for i in range(n_row)]))
    check("second marginal = the reference distribution", tuple(q.shape) == (n_ref,) and sand(*[q[j] == rd[j] for j in range(n_ref)]))
    ok = tuple(cost.shape) == (n_row, n_ref)
    check("cost has one row per support point and one column per reference point", ok, detail={"shape": list(cost.shape)})
    if ok:
        check("cost[i, j] = dist(row vector i, reference vector j) in both orientation branches",
              sand(*[cost[i, j] == dist(vec[i], ref[j]) for i in range(n_row) for j in range(n_ref)]))
    return None


# ------------------------------------------------------------------ size-symbolic index lemma (one arbitrary iteration)
_NUMBA_RANGES = {"uint8": (0, 2 ** 8 - 1), "uint16": (0, 2 ** 16 - 1), "uint32": (0, 2 ** 32 - 1), "uint64": (0, 2 ** 64 - 1),
                 "int8": (-2 ** 7, 2 ** 7 - 1), "int16": (-2 ** 15, 2 ** 15 - 1), "int32": (-2 ** 31, 2 ** 31 - 1), "int64": (-2 ** 63, 2 ** 63 - 1),
                 "intp": (-2 ** 63, 2 ** 63 - 1)}


def _declared_locals(fdef):
    """integer machine types declared through @numba.njit(locals={...}) on the function definition"""
    out = {}
    for d in fdef.decorator_list:
        if isinstance(d, ast.Call):
            for kw in d.keywords:
                if kw.arg == "locals":
                    v = kw.value
                    items = []
                    if isinstance(v, ast.Dict):
                        items = [(k.value, t) for k, t in zip(v.keys, v.values) if isinstance(k, ast.Constant)]
                    elif isinstance(v, ast.Call):
                        items = [(k.arg, k.value) for k in v.keywords]
                    for name, t in items:
                        tn = t.attr if isinstance(t, ast.Attribute) else (t.id if isinstance(t, ast.Name) else None)
                        if tn in _NUMBA_RANGES:
                            out[name] = (tn,) + _NUMBA_RANGES[tn]
    return out


class _OneIteration(ast.NodeTransformer):
    """`for v in range(e): body`  ->  `v = _havoc(e); body`   (one arbitrary iteration with a symbolic trip count);
    assignments to variables with a declared machine type go through _typed (range assertion)"""

    def __init__(self, declared):
        self.declared = declared

    def _wrap(self, name, value):
        if name in self.declared:
            return ast.Call(func=ast.Name(id="_typed", ctx=ast.Load()), args=[ast.Constant(name), value], keywords=[])
        return value

    def visit_For(self, node):
        self.generic_visit(node)
        it = node.iter
        fname = getattr(it.func, "id", None) or getattr(it.func, "attr", None) if isinstance(it, ast.Call) else None
        if not (fname in ("range", "prange") and isinstance(node.target, ast.Name)):
            raise core.Unmodelled("loop that is not `for v in range(...)` in the one-iteration lemma")
        hav = ast.Call(func=ast.Name(id="_havoc", ctx=ast.Load()), args=[ast.Constant(node.target.id)] + list(it.args), keywords=[])
        first = ast.Assign(targets=[ast.Name(id=node.target.id, ctx=ast.Store())], value=self._wrap(node.target.id, hav))
        return [first] + node.body

    def visit_Assign(self, node):
        self.generic_visit(node)
        if len(node.targets) == 1 and isinstance(node.targets[0], ast.Name):
            node.value = self._wrap(node.targets[0].id, node.value)
        return node


class _IndexRecorder:
    """array of symbolic size: every subscript is asserted to be in range and recorded; reads return fresh reals"""

    def __init__(self, name, dims):
        self.name, self.dims, self.reads, self.writes = name, dims, [], []

    def _idx(self, k):
        k = k if isinstance(k, tuple) else (k,)
        for x, d in zip(k, self.dims):
            check("%s: subscript within the array for every size" % self.name, sand(x >= 0, x < d))
        return k

    def __getitem__(self, k):
        k = self._idx(k)
        v = fresh_real("%s_cell" % self.name)
        self.reads.append((k, v))
        return v

    def __setitem__(self, k, v):
        self.writes.append((self._idx(k), v))


def h_arc_lemma(ex):
    """get_transport_plan for EVERY problem size: sizes n, m are symbolic (bounded only by pynndescent's uint16 node
    ids), the two loops are replaced by one arbitrary iteration each, and the assertions are (1) every local with a
    machine type declared through numba's locals= holds the value assigned to it, (2) every subscript is inside its
    array, (3) cell (i, j) reads the flow of arc n*m - 1 - (i*m + j), which allocate_graph_structures (non-mixing
    layout) connects from the supply node of row i to the demand node of column j"""
    import collections
    import os
    ot, lot = LOT()
    path = os.path.join(loader.REPO, "vectorizers", "linear_optimal_transport.py")
    tree = ast.parse(open(path).read())
    fdef = [n for n in tree.body if isinstance(n, ast.FunctionDef) and n.name == "get_transport_plan"][0]
    declared = _declared_locals(fdef)
    register("declared_locals", {k: v[0] for k, v in declared.items()})
    fdef.decorator_list = []
    fdef = ast.fix_missing_locations(_OneIteration(declared).visit(fdef))
    n = fresh_int("n", 1, 65534)
    m = fresh_int("m", 1, 65534)
    assume(n + m <= 65535)          # pynndescent stores node ids as uint16: larger problems are outside its documented reach
    register("n", n); register("m", m)
    hav = {}

    def _havoc(name, *a):
        lo, hi = (0, a[0]) if len(a) == 1 else (a[0], a[1])
        v = fresh_int("iter_" + name)
        assume(sand(v >= lo, v < hi))
        hav[name] = v
        return v

    def _typed(name, value):
        tn, lo, hi = declared[name]
        check("local '%s' declared %s holds every value assigned to it" % (name, tn), sand(value >= lo, value <= hi))
        return value
    Graph = collections.namedtuple("Graph", "n_nodes n_arcs n m use_arc_mixing num_total_big_subsequence_numbers subsequence_length num_big_subsequences mixing_coeff")
    graph = Graph(n + m, n * m, n, m, False, 0, 0, 0, 0)
    flow = _IndexRecorder("flow", (n * m + 2 * (n + m),))
    result = _IndexRecorder("result", (n, m))

    class _NP:
        float64 = np.float64

        @staticmethod
        def zeros(shape, dtype=None):
            return result
    ns = {"np": _NP, "arc_id": ot.arc_id, "_havoc": _havoc, "_typed": _typed, "range": range}
    exec(compile(ast.Module(body=[fdef], type_ignores=[]), path, "exec"), ns)
    call(ns["get_transport_plan"], flow, graph)
    check("exactly one cell is written per (i, j) iteration, from exactly one flow entry", len(result.writes) == 1 and len(flow.reads) == 1)
    if len(result.writes) != 1 or len(flow.reads) != 1:
        return None
    (ci, cj), val = result.writes[0]
    (p,), fv = flow.reads[0]
    i, j = hav.get("i"), hav.get("j")
    check("the written cell is (i, j) and holds the flow that was read", sand(ci == i, cj == j) if (i is not None and j is not None) else False)
    a = n * m - 1 - p                      # allocate_graph_structures: position p holds arc a = n_arcs - 1 - p
    check("cell (i, j) reads the arc whose source is the supply node of row i", a // m == i)
    check("cell (i, j) reads the arc whose target is the demand node of column j", a % m == j)
    return None


def h_chunk_cover_lemma(ex):
    """chunked_pairwise_distance for EVERY row count, column count and chunk size: (a) one arbitrary iteration of the
    four nested loops writes a cell inside the result with dist(data1[i], data2[j]); (b) for an arbitrary cell
    (i*, j*) the iteration chunk_idx = i* // chunk_size, m = (j* // chunk_size) * chunk_size, i = i*, j = j* lies inside
    all four loop ranges -- so every cell of the np.empty buffer is written"""
    import os
    ot, lot = LOT()
    path = os.path.join(loader.REPO, "vectorizers", "linear_optimal_transport.py")
    tree = ast.parse(open(path).read())
    fdef = [n for n in tree.body if isinstance(n, ast.FunctionDef) and n.name == "chunked_pairwise_distance"][0]
    fdef.decorator_list = []
    fdef.args.defaults = []
    fdef = ast.fix_missing_locations(_OneIteration({}).visit(fdef))
    R = fresh_int("row_size", 1, 10 ** 6)
    C = fresh_int("col_size", 1, 10 ** 6)
    cs_ = fresh_int("chunk_size", 1, 10 ** 6)
    istar = fresh_int("i_star", 0)
    jstar = fresh_int("j_star", 0)
    assume(sand(istar < R, jstar < C))
    register("row_size", R); register("col_size", C); register("chunk_size", cs_)
    mode = {"witness": False}
    hav = {}

    def _havoc(name, *a):
        lo, hi, step = (0, a[0], 1) if len(a) == 1 else ((a[0], a[1], 1) if len(a) == 2 else a)
        if mode["witness"]:
            v = {"chunk_idx": istar // cs_, "m": (jstar // cs_) * cs_, "i": istar, "j": jstar}[name]
            check("covering iteration: %s lies inside its loop range" % name,
                  sand(v >= lo, v < hi, ((v - lo) % step == 0) if not (isinstance(step, int) and step == 1) else True))
        else:
            k = fresh_int("iter_" + name, 0)
            v = lo + k * step
            assume(sand(v >= lo, v < hi))
        hav[name] = v
        return v
    writes = []

    class _Res:
        def __setitem__(self, k, v):
            writes.append((k, v))

    class _Data:
        def __init__(self, n, tag):
            self.shape, self.tag = (n,), tag

        def __getitem__(self, k):
            return (self.tag, k)

    class _NP:
        float32 = np.float32

        @staticmethod
        def empty(shape, dtype=None):
            return _Res()
    ns = {"np": _NP, "numba": types.SimpleNamespace(prange=range), "_havoc": _havoc, "_typed": lambda n, v: v, "range": range, "min": loader.INJECT["min"]}
    exec(compile(ast.Module(body=[fdef], type_ignores=[]), path, "exec"), ns)
    f = ns["chunked_pairwise_distance"]
    dist = lambda x, y: ("dist", x, y)
    # (a) an arbitrary iteration
    call(f, _Data(R, "A"), _Data(C, "B"), dist, cs_)
    check("one cell written per innermost iteration", len(writes) == 1)
    if len(writes) == 1:
        (wi, wj), val = writes[0]
        check("the written cell is inside the result", sand(wi >= 0, wi < R, wj >= 0, wj < C))
        check("it holds dist(data1[i], data2[j]) of its own indices",
              val[0] == "dist" and val[1][0] == "A" and val[2][0] == "B" and bool(sand(val[1][1] == wi, val[2][1] == wj)))
    # (b) the iteration that covers an arbitrary cell exists
    del writes[:]
    mode["witness"] = True
    call(f, _Data(R, "A"), _Data(C, "B"), dist, cs_)
    check("the covering iteration writes the chosen cell", len(writes) == 1 and bool(sand(writes[0][0][0] == istar, writes[0][0][1] == jstar)))
    return None


def cases(tier):
    cs = []
    shapes = [(1, 1), (1, 3), (3, 1), (2, 2), (2, 3), (3, 2)] if tier == "quick" else [(n, m) for n in range(1, 5) for m in range(1, 5)]
    A = ["p and q are non-negative and sum to one (zeros allowed)", "Real arithmetic: the 1e-9 / 1e-7 tolerances of the statement concern float64 rounding of the pivoting loop, which is outside",
         "the optimality of pynndescent's pivoting loop is trusted (contract stub); what is decided is that the repository reads the plan off the right arcs and hands the solver the right supplies and costs"]
    for n, m in shapes:
        cs.append(Case("transport_plan[%dx%d]" % (n, m), h_plan, dict(n=n, m=m), replay="C07:replay_plan", functions=FUNCS, stubs=STUBS,
                       assumptions=A, bounds={"source points": n, "target points": m, "masses": "symbolic reals >= 0 summing to 1", "cost": "symbolic reals >= 0"}))
    cs.append(Case("arc_index_lemma[all sizes]", h_arc_lemma, {}, replay="C07:replay_arc_lemma", functions=FUNCS[:2] + FUNCS[-1:], fast_ms=2000,
                   assumptions=["n + m <= 65535 (pynndescent's uint16 node ids)", "non-mixing arc layout of allocate_graph_structures(n, m, False): position p holds arc n*m - 1 - p (validated on concrete sizes by the transport_plan cases, which execute the real allocation loop)",
                                "loops replaced by one arbitrary iteration (loop bodies do not carry state between iterations)"],
                   bounds={"n, m": "symbolic, 1 .. 65534 with n + m <= 65535", "iteration": "arbitrary (i, j)"}))
    cs.append(Case("chunk_cover_lemma[all sizes]", h_chunk_cover_lemma, {}, replay="C07:replay_chunk_lemma", functions=FUNCS[2:3], fast_ms=3000,
                   assumptions=["loops replaced by one arbitrary iteration / by the covering iteration of an arbitrary cell (bodies carry no state between iterations)"],
                   bounds={"row_size, col_size, chunk_size": "symbolic 1 .. 10^6", "cell": "arbitrary (i*, j*)"}))
    grid = [(r, c) for r in range(0, 5) for c in range(0, 5) if (r + c) <= (6 if tier == "quick" else 8)]
    for r, c in grid:
        if r == 0 and c == 0:
            continue
        cs.append(Case("chunked_pairwise_distance[%dx%d]" % (r, c), h_chunked, dict(rows=r, cols=c, dim=1), replay="C07:replay_chunked",
                       functions=FUNCS, bounds={"rows": r, "cols": c, "chunk_size": "1..max(rows, cols)+1 symbolic", "dist": "uninterpreted function"}))
    og = [("sparse", 1, 2), ("sparse", 2, 2), ("sparse", 3, 2), ("dense", 1, 2), ("dense", 2, 1), ("dense", 3, 2)] if tier == "quick" else \
        [(v, a, b) for v in ("sparse", "dense") for a in (1, 2, 3, 4) for b in (1, 2, 3)]
    for v, a, b in og:
        cs.append(Case("cost_orientation[%s,support=%d,reference=%d]" % (v, a, b), h_orientation, dict(variant=v, n_row=a, n_ref=b, dim=1),
                       replay="C07:replay_orientation", functions=FUNCS, stubs=["transport_plan -> records its arguments, returns an arbitrary non-negative matrix"],
                       env={"NUMBA_DISABLE_JIT": "1"},
                       bounds={"support points": a, "reference points": b, "vector dimension": 1, "metric": "weighted L1 (interpreted, the same in the replay driver)"}))
    return cs
