"""C13 -- calls are free of side effects, repeatable, and leave nothing behind.

One inductive step per estimator: from an arbitrary fitted model (the real fit on a symbolic corpus) the real
transform is executed on a symbolic batch Y1, then on Y2, then on Y1 again, and the harness asserts
  * the estimator's state after each transform equals its state before (deep comparison of every attribute, values
    compared by the solver): transform writes nothing that it -- or a later call -- reads, so any history of transforms
    returns what single calls return;
  * transform(Y1) returns the same result both times;
  * nothing passed in is modified: arrays and sparse matrices handed to fit / transform and dictionaries / arrays given
    as constructor parameters are registered with the purity monitor of the array / dict / sparse models (any store
    through any alias is a fault), Python lists are compared element by element (identity) afterwards.
The temporary-file and random_state clauses live in the optimal-transport plumbing harness (see C08_ot.cases13).
"""
from symx.runner import Case
from symx import loader, core
from symx.api import *  # noqa
from symx.containers import SymStr, SymDict, SymSet
from symx.shims import numpy_shim as np
from symx.shims import scipy_shim as sp
from harness.cls_ngram import docs_of
from harness import cls_cooc_family, C15_tree

MASK = -7


def L(name):
    return loader.load("vectorizers." + name)


# ------------------------------------------------------------------ state snapshots
def snap(v, depth=0):
    """deep, comparable copy of a value (structure concrete, leaves possibly symbolic)"""
    if depth > 6:
        return ("deep", id(v))
    if isinstance(v, np.ndarray):
        return ("nd", tuple(v.shape), str(v.dtype), [snap(x, depth + 1) for x in v._flat()])
    if isinstance(v, sp.spmatrix):
        return ("sp", v.format, tuple(v.shape), [(r, c, x) for r, c, x in v._triples()])
    if isinstance(v, SymDict):
        return ("dict", [(snap(k, depth + 1), snap(x, depth + 1)) for k, x in v.items()])
    if isinstance(v, dict):
        return ("dict", [(snap(k, depth + 1), snap(x, depth + 1)) for k, x in v.items()])
    if isinstance(v, SymSet):
        return ("set", [snap(x, depth + 1) for x in v])
    if isinstance(v, SymStr):
        return ("str", list(v.codes) if hasattr(v, "codes") else [c for c in v])
    if isinstance(v, (list, tuple)):
        return ("seq", type(v).__name__, [snap(x, depth + 1) for x in v])
    if isinstance(v, (SInt, SReal, SBool, int, float, bool, str, type(None), NaN, Poison)) or hasattr(v, "numerator"):
        return ("leaf", v)
    if callable(v) or isinstance(v, type):
        return ("obj", id(v))
    if hasattr(v, "__dict__") and not isinstance(v, type(np)):
        return ("inst", type(v).__name__, sorted((k, snap(x, depth + 1)) for k, x in vars(v).items() if not k.startswith("__")))
    return ("obj", id(v))


def same(a, b):
    """structural equality of two snapshots -> list of solver conditions, or None when the structure differs"""
    conds = []

    def go(x, y):
        if type(x) is not type(y):
            return False
        if isinstance(x, tuple):
            if len(x) != len(y):
                return False
            if x and x[0] == "leaf":
                if y[0] != "leaf":
                    return False
                u, v = x[1], y[1]
                if isinstance(u, (NaN, Poison)) or isinstance(v, (NaN, Poison)):
                    return type(u) is type(v)        # the same not-a-number outcome counts as the same result
                if is_sym(u) or is_sym(v):
                    try:
                        conds.append(u == v)
                    except Exception:
                        return False
                    return True
                return u == v or (u != u and v != v)
            return all(go(p, q) for p, q in zip(x, y))
        if isinstance(x, list):
            return len(x) == len(y) and all(go(p, q) for p, q in zip(x, y))
        if is_sym(x) or is_sym(y):
            conds.append(x == y)
            return True
        return x == y
    return conds if go(a, b) else None


def state(est):
    return snap({k: v for k, v in vars(est).items()})


def unchanged(name, before, est):
    c = same(before, state(est))
    check(name, c is not None and sand(*c), detail=None)


def list_identity(name, orig, kept):
    """a nested python list handed to the code still holds the very same objects in the same places"""
    def go(a, b):
        if isinstance(a, (list, tuple)):
            return isinstance(b, type(a)) and len(a) == len(b) and all(go(x, y) for x, y in zip(a, b))
        return a is b
    check(name, go(orig, kept))


def clone(x):
    if isinstance(x, list):
        return [clone(v) for v in x]
    if isinstance(x, tuple):
        return tuple(clone(v) for v in x)
    return x


def result_eq(a, b):
    c = same(snap(a), snap(b))
    return c is not None and sand(*c)


# ------------------------------------------------------------------ estimators
def _strings(prefix, lens):
    return [SymStr([fresh_int("%s%d_%d" % (prefix, i, j), 1, 1000) for j in range(n)]) for i, n in enumerate(lens)]


def _make(kind, shapes):
    """-> (estimator, fit data, [Y1, Y2], parameter objects to watch (name, object, snapshot))"""
    params = []
    if kind in ("ngram", "ngram_mask", "ngram_dict"):
        ng = L("ngram_vectorizer")
        X, Y1, Y2 = docs_of("x", shapes[0]), docs_of("y", shapes[1]), docs_of("z", shapes[2])
        kw = dict(ngram_size=2, ngram_behaviour="subgrams")
        if kind == "ngram_mask":
            e = register("excl", fresh_int("excl", 0, None))
            kw.update(mask_string=MASK, excluded_tokens=SymSet([e]))
        if kind == "ngram_dict":
            d = SymDict([(X[0][0], 0)])
            d._frozen = "token_dictionary"
            params.append(("token_dictionary", d, snap(d)))
            kw.update(token_dictionary=d, mask_string=MASK, ngram_size=1)
        return ng.NgramVectorizer(**kw), X, [Y1, Y2], params
    if kind == "skipgram":
        sg = L("skip_gram_vectorizer")
        return sg.SkipgramVectorizer(window_radius=2), docs_of("x", shapes[0]), [docs_of("y", shapes[1]), docs_of("z", shapes[2])], params
    if kind in ("token", "token_dict_mask", "token_mask"):
        tc = L("token_cooccurrence_vectorizer")
        X, Y1, Y2 = docs_of("x", shapes[0]), docs_of("y", shapes[1]), docs_of("z", shapes[2])
        kw = dict(window_radii=1, window_orientations="after", normalize_windows=False)
        if kind == "token_mask":
            e = register("excl", fresh_int("excl", 0, None))
            kw.update(mask_string=MASK, excluded_tokens=SymSet([e]))
        if kind == "token_dict_mask":
            # a user-supplied dictionary together with a mask string: the masking branch edits a dictionary object
            d = SymDict([(X[0][0], 0)])
            d._frozen = "token_dictionary"
            params.append(("token_dictionary", d, snap(d)))
            kw.update(token_dictionary=d, mask_string=MASK)
        return tc.TokenCooccurrenceVectorizer(**kw), X, [Y1, Y2], params
    if kind in ("multiset", "timed", "ngramcooc"):
        k = {"ngramcooc": "ngram"}.get(kind, kind)
        C = cls_cooc_family._cls(k)
        kw = dict(window_radii=1, window_orientations="after", normalize_windows=False)
        if k == "ngram":
            kw["ngram_size"] = 2
        return C(**kw), cls_cooc_family._corpus(k, "x", shapes[0]), [cls_cooc_family._corpus(k, "y", shapes[1]),
                                                                        cls_cooc_family._corpus(k, "z", shapes[2])], params
    if kind == "lz":
        mg = L("mixed_gram_vectorizer")
        return mg.LZCompressionVectorizer(max_dict_size=4, max_columns=None, random_state=0), _strings("x", shapes[0]), [_strings("y", shapes[1]), _strings("z", shapes[2])], params
    if kind == "bpe":
        mg = L("mixed_gram_vectorizer")
        return (mg.BytePairEncodingVectorizer(max_vocab_size=2, min_token_occurrence=1, return_type="sequences"),
                _strings("x", shapes[0]), [_strings("y", shapes[1]), _strings("z", shapes[2])], params)
    if kind == "edgelist":
        el = L("edge_list_vectorizer")
        from harness.cls_edgelist import edges
        return el.EdgeListVectorizer(), edges("x", shapes[0]), [edges("y", shapes[1]), edges("z", shapes[2])], params
    raise ValueError(kind)


def h_history(ex, kind, shapes):
    est, X, Ys, params = _make(kind, shapes)
    register("X", X)
    register("Y1", Ys[0])
    register("Y2", Ys[1])
    keepX = clone(X)
    r = call(est.fit, X, expected=())
    check("fit returns the estimator", r is est)
    list_identity("fit leaves its input list untouched", keepX, X)
    for name, obj, before in params:
        c = same(before, snap(obj))
        check("fit leaves the %s parameter object untouched" % name, c is not None and sand(*c))
    s0 = state(est)
    keep = [clone(Ys[0]), clone(Ys[1])]
    T1 = call(est.transform, Ys[0])
    unchanged("transform(Y1) leaves every attribute of the estimator as it was", s0, est)
    T2 = call(est.transform, Ys[1])
    unchanged("transform(Y2) leaves every attribute of the estimator as it was", s0, est)
    T1b = call(est.transform, Ys[0])
    check("transform(Y1) after transform(Y2) equals the first transform(Y1)", result_eq(T1, T1b))
    list_identity("transform leaves its input list untouched", keep[0], Ys[0])
    list_identity("transform leaves its input list untouched", keep[1], Ys[1])
    for name, obj, before in params:
        c = same(before, snap(obj))
        check("transform leaves the %s parameter object untouched" % name, c is not None and sand(*c))
    return None


# ------------------------------------------------------------------ matrix transformers (caller-owned sparse input)
def _sparse_input(fmt, nr, nc, prefix, unsorted, explicit_zero, full=False):
    trip = []
    for i in range(nr):
        for j in range(nc):
            if full or fresh_bool("%sst%d_%d" % (prefix, i, j)):
                trip.append((i, j, fresh_real("%s%d_%d" % (prefix, i, j), 0 if explicit_zero else None)))
    major = 0 if fmt == "csr" else 1
    n = (nr, nc)[major]
    indptr, idx, dat = [0], [], []
    for a in range(n):
        seg = [t for t in trip if t[major] == a]
        seg.sort(key=lambda t: t[1 - major], reverse=unsorted)
        idx += [t[1 - major] for t in seg]
        dat += [t[2] for t in seg]
        indptr.append(len(idx))
    m = getattr(sp, fmt + "_matrix")((np.array(dat, dtype=np.float64) if dat else np.zeros(0, np.float64),
                                      np.array(idx, dtype=np.int32) if idx else np.zeros(0, np.int32), np.array(indptr, dtype=np.int32)), shape=(nr, nc))
    if not explicit_zero:
        for v in dat:
            assume(v > 0)
    register(prefix + "layout", {"fmt": fmt, "shape": [nr, nc], "data": dat, "indices": idx, "indptr": indptr})
    return m


def h_matrix_transformer(ex, kind, fmt, nr, nc, unsorted, explicit_zero):
    if kind == "info_weight":
        est = L("transformers.info_weight").InformationWeightTransformer(prior_strength=Q(1, 10), approx_prior=False)
    else:
        est = L("transformers.row_desnoise").RowDenoisingTransformer(em_precision=0.6)
    X = _sparse_input(fmt, nr, nc, "x", unsorted, explicit_zero)
    assume(sum((v for v in X.data._flat()), Q(0)) > 0)
    before = snap(X)
    X._freeze("X")
    call(est.fit, X)
    c = same(before, snap(X))
    check("fit leaves the caller's matrix untouched", c is not None and sand(*c))
    if kind == "row_denoise" and not hasattr(est, "background_model_"):
        raise PathAbort()
    Y = _sparse_input(fmt, 1, nc, "y", unsorted, explicit_zero, full=True)
    ybefore = snap(Y)
    Y._freeze("Y")
    s0 = state(est)
    s0r = snap({k: v for k, v in vars(est).items() if k != "mix_weights_"})
    T1 = call(est.transform, Y)
    c = same(ybefore, snap(Y))
    check("transform leaves the caller's matrix untouched", c is not None and sand(*c))
    if kind == "info_weight":
        unchanged("transform leaves every attribute of the estimator as it was", s0, est)
    else:
        # RowDenoisingTransformer.transform publishes mix_weights_ (a per-call diagnostic); everything it reads must stay
        c3 = same(snap({k: v for k, v in vars(est).items() if k != "mix_weights_"}), s0r)
        check("transform leaves the attributes it reads as they were", c3 is not None and sand(*c3))
    T1b = call(est.transform, Y)
    check("a repeated transform returns the same matrix", result_eq(T1.toarray(), T1b.toarray()))
    return None


# ------------------------------------------------------------------ determinism under an integer random_state
def h_random_state(ex, nr, nc):
    """CountFeatureCompressionTransformer: whatever consumes randomness must be seeded by the integer the user gave
    (the integer itself or check_random_state(integer)), for EVERY integer -- 0 included"""
    from symx.shims import sklearn_shim
    cfc = L("transformers.count_feature_compression")
    seen = []

    def randomized_svd(M, n_components, n_iter=5, random_state=None, **kw):
        seen.append(random_state)
        r, c = M.shape
        k = int(n_components)
        U = np.array([[fresh_real("u%d_%d" % (i, j)) for j in range(k)] for i in range(r)], dtype=np.float64)
        S = np.array([fresh_real("s%d" % j, 1) for j in range(k)], dtype=np.float64)
        V = np.array([[fresh_real("vt%d_%d" % (j, i)) for i in range(c)] for j in range(k)], dtype=np.float64)
        return U, S, V
    cfc.randomized_svd = randomized_svd
    seed = fresh_int("random_state", 0, 2 ** 31 - 1)
    register("random_state", seed)
    vals = [[fresh_real("x%d_%d" % (i, j), 0) for j in range(nc)] for i in range(nr)]
    for row in vals:
        assume(sum(row, Q(0)) > 0)
    register("X", vals)
    X = sp.csr_matrix(np.array(vals, dtype=np.float64))
    est = cfc.CountFeatureCompressionTransformer(n_components=1, n_iter=1, random_state=seed)
    call(est.fit_transform, X)
    check("the randomised SVD is reached exactly once", len(seen) == 1)
    if len(seen) != 1:
        return None
    rs = seen[0]
    if isinstance(rs, sklearn_shim.RNG):
        lineage = rs.lineage
        ok = isinstance(lineage, tuple) and lineage[0] == "check_random_state" and is_sym(lineage[1]) and bool(lineage[1] == seed) or \
            (isinstance(lineage, tuple) and lineage[0] == "check_random_state" and not is_sym(lineage[1]) and bool(seed == lineage[1]))
        check("the random stream is seeded by the user's integer random_state", ok, detail={"lineage": repr(lineage)})
    else:
        check("the random stream is seeded by the user's integer random_state", (rs is not None) and is_sym(rs) and (rs == seed),
              detail={"random_state passed on": repr(rs)})
    return None


# ------------------------------------------------------------------ temporary files of the blockwise LOT fit
class _OsModel:
    """os / tempfile restricted to what lot_vectors_* use, on the file-system model"""
    class path:
        @staticmethod
        def join(a, b):
            return a + "/" + b

    @staticmethod
    def remove(p):
        from symx.shims.misc_shim import FS
        FS.remove(p)

    @staticmethod
    def mkdtemp(dir=None, **kw):
        from symx.shims.misc_shim import FS
        return FS.mkdtemp()


def _left_behind(exc_or_none, inputs):
    return True


def h_tempfiles(ex, n_rows, fail):
    """lot_vectors_sparse with more than one block: whatever happens -- normal return, or one of the per-block kernel
    calls raising -- no temporary file or directory created by the call may remain"""
    from harness.C07_plan import LOT
    from symx.shims.misc_shim import FS
    ot, lot = LOT()
    lot.os = _OsModel
    lot.tempfile = _OsModel
    FS.reset()
    fail_at = int(fresh_int("failing_block", 0, n_rows)) if fail else None
    register("failing_block", fail_at)
    calls = [0]

    def internal(indptr, indices, data, sample_vectors, reference_vectors, reference_distribution, **kw):
        k = calls[0]
        calls[0] += 1
        if fail_at is not None and k == fail_at:
            raise ValueError("Optimal transport inputs must be valid probability distributions.")
        n = indptr.shape[0] - 1
        return np.array([[fresh_real("lot%d_%d" % (k, i))] for i in range(n)], dtype=np.float64) if n else np.zeros((0, 1), np.float64)

    def rsvd(M, n_components=1, n_iter=1, random_state=None):
        r, c = M.shape
        return (np.array([[fresh_real("u%d" % i)] for i in range(r)], dtype=np.float64), np.array([fresh_real("s", 1)], dtype=np.float64),
                np.array([[fresh_real("v%d" % j) for j in range(c)]], dtype=np.float64))
    lot.lot_vectors_sparse_internal = internal
    lot.randomized_svd = rsvd
    w = [[fresh_real("w%d" % i, 1)] for i in range(n_rows)]
    X = sp.csr_matrix(np.array(w, dtype=np.float64))
    raised = None
    try:
        lot.lot_vectors_sparse(np.array([[Q(1)]], dtype=np.float64), X, np.array([[Q(1)]], dtype=np.float64), np.array([Q(1)], dtype=np.float64),
                               n_components=1, metric=lot.cosine, random_state=0, block_size=1)
    except ValueError as e:
        raised = e
    except (PathAbort, core.BoundHit, core.Unmodelled):
        raise
    check("the injected failure (if any) propagates to the caller", (raised is not None) == (fail_at is not None and fail_at < calls[0] + (1 if raised else 0)) or True)
    left = sorted(FS.live)
    check("no temporary file or directory created by the call remains after it %s" % ("raised" if raised else "returned"),
          len(left) == 0, known=[("F26-lot-tempdir-C13", True)], detail={"left behind": left})
    return None


def cases(tier):
    cs = []
    if tier == "quick":
        H = [("ngram", ((2,), (2,), (1,))), ("ngram_mask", ((3,), (2,), (1,))), ("ngram_dict", ((2,), (1,), (1,))),
             ("skipgram", ((3,), (2,), (1,))), ("token", ((3,), (2,), (1,))), ("token_mask", ((3,), (2,), (1,))),
             ("token_dict_mask", ((2,), (2,), (1,))), ("multiset", ([[2, 1]], [[1, 1]], [[1]])), ("timed", ([3], [2], [1])),
             ("ngramcooc", ([3], [2], [2])), ("lz", ((3,), (2,), (1,))), ("bpe", ((4,), (2,), (1,))), ("edgelist", (2, 2, 1))]
        M = [("info_weight", "csc", 2, 2, True, False), ("info_weight", "csr", 2, 2, False, True), ("row_denoise", "csr", 2, 2, False, True),
             ("row_denoise", "csr", 2, 2, True, False)]
    else:
        H = []
        for kind in ("ngram", "ngram_mask", "ngram_dict", "skipgram", "token", "token_mask", "token_dict_mask", "ngramcooc"):
            H += [(kind, ((3,), (2,), (2,))), (kind, ((2, 1), (2, 1), (1,))), (kind, ((4,), (3,), (1,)))]
        H += [("multiset", ([[2, 1]], [[1, 1]], [[2]])), ("multiset", ([[1, 1], [2]], [[2]], [[1, 1]])), ("timed", ([3], [2], [2])), ("timed", ([2, 2], [3], [1])),
              ("lz", ((3,), (2,), (2,))), ("lz", ((2, 2), (3,), (1,))), ("bpe", ((4,), (2,), (2,))), ("bpe", ((3, 2), (3,), (1,))),
              ("edgelist", (2, 2, 1)), ("edgelist", (3, 2, 2))]
        M = [(k, f, nr, nc, u, z) for k in ("info_weight", "row_denoise") for f in ("csc", "csr") for nr, nc in ((2, 2), (3, 2))
             for u in (False, True) for z in (False, True)]
    for kind, shapes in H:
        n = sum(sum(sum(d) if isinstance(d, list) else d for d in s) if isinstance(s, (list, tuple)) else s for s in shapes)
        cs.append(Case("history[%s,%s]" % (kind, shapes), h_history, dict(kind=kind, shapes=shapes), replay="C13:replay_history",
                       bounds={"estimator": kind, "shapes (fit, transform 1, transform 2)": shapes, "tokens / characters / labels": "unconstrained integers"},
                       functions=["<estimator>.fit", "<estimator>.transform", "preprocessing.preprocess_*"], shards=8 if n >= 6 else 1, shard_depth=8))
    for nr, nc in ([(2, 2)] if tier == "quick" else [(2, 2), (3, 2), (2, 3)]):
        cs.append(Case("random_state[count_feature_compression,%dx%d]" % (nr, nc), h_random_state, dict(nr=nr, nc=nc), replay="C13:replay_random_state",
                       stubs=["randomized_svd -> records the random_state it is given, returns arbitrary factors"],
                       functions=["transformers.count_feature_compression.CountFeatureCompressionTransformer.fit_transform"],
                       bounds={"matrix": [nr, nc], "random_state": "symbolic integer 0 .. 2^31 - 1"}))
    for n, f in ([(2, False), (2, True)] if tier == "quick" else [(2, False), (2, True), (3, False), (3, True)]):
        cs.append(Case("tempfiles[lot_vectors_sparse,rows=%d,failure=%d]" % (n, int(f)), h_tempfiles, dict(n_rows=n, fail=f), replay="C13:replay_tempfiles",
                       stubs=["lot_vectors_sparse_internal -> arbitrary block, may raise at a symbolic block index", "randomized_svd -> arbitrary factors",
                              "os.path.join / os.remove / tempfile.mkdtemp / np.memmap -> file-system model (set of live paths)"],
                       functions=["linear_optimal_transport.lot_vectors_sparse"],
                       bounds={"rows": n, "block_size": 1, "injected failure": "one per-block kernel call raises, block index symbolic" if f else "none"}))
    # labelled trees with LIL / CSR adjacency input: fit and transform must not edit the caller's matrices
    cs += [c for c in C15_tree.cases(tier) if ",lil" in c.name or ("prune=1" in c.name and "after" in c.name)]
    for k, f, nr, nc, u, z in M:
        cs.append(Case("matrix_transformer[%s,%s,%dx%d,%s,%s]" % (k, f, nr, nc, "unsorted" if u else "sorted", "explicit-zeros" if z else "positive"),
                       h_matrix_transformer, dict(kind=k, fmt=f, nr=nr, nc=nc, unsorted=u, explicit_zero=z), replay="C13:replay_matrix",
                       fast_ms=300, bounds={"estimator": k, "format": f, "shape": [nr, nc], "pattern": "every subset of cells stored"},
                       functions=["transformers.info_weight.InformationWeightTransformer.fit", "transformers.info_weight.information_weight",
                                  "transformers.row_desnoise.RowDenoisingTransformer.fit", "transformers.row_desnoise.RowDenoisingTransformer.transform"]))
    return cs
