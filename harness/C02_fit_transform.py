"""C02 -- fit_transform(X) equals fit(X).transform(X), and fit returns the estimator.

Symbolic differential: both pipelines of the real classes run on the same symbolic X under one path condition and
are compared cell by cell.
"""
from harness import cls_ngram, cls_edgelist, cls_skipgram, C09_bpe, cls_cooc, cls_cooc_family, cls_rowwise, C15_tree


def cases(tier):
    cs = cls_ngram.ngram_cases(tier, ["C02"]) + cls_skipgram.cases(tier, ("C02",)) + cls_edgelist.cases(tier)
    cs += [c for c in C09_bpe.cases(tier) if c.name.startswith("bpe_e2e")]
    cs += cls_cooc.cases(tier, props=("C02",))
    cs += cls_cooc_family.cases(tier)      # multiset / timed / n-gram co-occurrence: differential without an oracle
    cs += [c for c in cls_rowwise.cases(tier) if "row_denoise" in c.name]
    cs += [c for c in C15_tree.cases(tier) if c.params.get("with_transform")]
    return cs
