"""property id -> harness modules (each exposes cases(tier) -> [Case])"""
REGISTRY = {
    "C11": {"modules": ["harness.C11_em"], "uncovered": ["timed / multiset / n-gram EM drivers (same em_update_matrix kernel)", "float32 rounding of the posterior", "'column sums exactly 1 at epsilon = 0' follows from the procedure equality and is not asserted separately"]},
    "C14": {"modules": ["harness.C14_mask"], "uncovered": ["timed / multiset / n-gram co-occurrence and tree vectorizers (same masking code pattern, not yet encoded)", "NgramVectorizer.nullify_mask (excluded by the property)"]},
    "C05": {"modules": ["harness.C05_vocab"], "uncovered": ["excluded_token_regex (regular expressions on symbolic strings are outside the encoding)", "second-stage n-gram pruning in NgramVectorizer / NgramCooccurrenceVectorizer (same prune_token_dictionary code, exercised through cls_ngram min_occ cases)", "totals above the IEEE bound, counts >= 2**24"]},
    "C01": {"modules": ["harness.C01_shape"], "uncovered": ["Histogram (covered under C20), KDE, Distribution (sklearn objects)", "Wasserstein family"]},
    "C02": {"modules": ["harness.C02_fit_transform"], "uncovered": []},
    "C12": {"modules": ["harness.C12_rows"], "uncovered": ["KDE, Distribution", "Sinkhorn batch coupling (numerical tolerance of a shared stopping test)"]},
    "C06": {"modules": ["harness.C06_counts"], "uncovered": []},
    "C16": {"modules": ["harness.C16_lz"], "uncovered": ["murmurhash bit arithmetic (hash modelled as an arbitrary function; BV lemma planned)", "base_dictionary together with hashing", "the relabelling clause under injective hashing"]},
    "C19": {"modules": ["harness.C19_sliding"], "uncovered": ["window_sample='random'", "callable / changepoint function kernels", "position_velocity and gaussian_weight kernels", "index lists that are not strictly increasing (a full-length list is ignored by sliding_windows: `sample.shape[0] < width`)"]},
    "C09": {"modules": ["harness.C09_bpe"], "uncovered": []},
    "C03": {"modules": ["harness.C03_cooc", "harness.C03_class"], "uncovered": ["timed / multiset / n-gram drivers (token driver and class are encoded)", "variable window radii (np.power with a real exponent)", "float32 accumulation order", "timestamp float32 packing (IEEE lemma planned)"]},
    "C04": {"modules": ["harness.C04_accumulator", "harness.C04_class"], "uncovered": ["timed / multiset / n-gram drivers", "real OS threads (schedule independence is argued through non-interference of chunk tasks)"]},
    "C18": {"modules": ["harness.C18_distances"],
            "uncovered": ["float32/float64 rounding of the distance values (Real arithmetic is used except in the IEEE hellinger lemma)",
                          "dimension > 3", "triangle inequality of hellinger (non-linear; attempted only in the thorough tier)",
                          "sparse Jensen-Shannon / symmetric-KL vs dense on the *full* vectors differ by the EPS*dim smoothing term; checked against dense on the union-supported vectors"]},
}
