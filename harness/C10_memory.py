"""C10 -- compiled kernels never access memory outside their arrays.

The array model's monitors (index range on every subscript, read of np.empty / never-assigned memory, use of an
unassigned local) are assertions that are always on.  This module runs, with ONLY those monitors counting
(Explorer.memory_only: functional assertions are skipped, exceptions other than index / unbound-variable errors end
the path silently):
  * the kernel- and class-level harnesses of the other properties (same symbolic inputs, same bounds), and
  * dedicated edge drivers for kernels no other property reaches (multiset / timed / n-gram co-occurrence drivers and
    kernels with a 1 kB accumulator, the approximate / supervised information-weight kernels, the row-denoising EM
    kernel).
A counterexample is replayed on the real package under NUMBA_BOUNDSCHECK=1, where the compiled kernel raises
IndexError instead of silently reading neighbouring memory.  "Same result as compiled execution" is the path-witness
validation of the host harnesses: the Python-semantics result of each explored path is compared with the compiled one.
"""
import importlib
from symx.runner import Case
from symx import loader
from symx.api import *  # noqa
from symx.shims import numpy_shim as np
from symx.shims import scipy_shim as sp

# (module, name filter for the quick tier or None for all, extra keyword for cases())
HOSTS = [
    ("harness.C11_em", ("em_unit",), {}),
    ("harness.C09_bpe", ("contract", "bpe_e2e", "bpe_matrix"), {}),
    ("harness.C04_accumulator", None, {}),
    ("harness.C03_cooc", None, {}),
    ("harness.cls_cooc", None, {"props": ()}),
    ("harness.cls_cooc_family", None, {}),
    ("harness.C19_sliding", None, {}),
    ("harness.C16_lz", None, {}),
    ("harness.C18_distances", ("sparse_", "dense_union", "set_helpers", "sparse_vs_dense", "basic"), {}),
    ("harness.C17_infoweight", ("kl_exact",), {}),
    ("harness.C06_counts", ("ngram", "skipgram"), {}),      # EdgeListVectorizer has no compiled kernel
    ("harness.C07_plan", ("transport_plan", "chunked_pairwise_distance", "cost_orientation"), {}),
    ("harness.C08_ot", ("kernel_chunks", "measure_invariance", "truncation"), {}),
    ("harness.cls_rowwise", ("rowwise[bpe",), {}),
]
# quick tier: at most this many cases per host (the first ones of its own quick grid); thorough: all
QUICK_CAP = {"harness.C17_infoweight": 3, "harness.C11_em": 6, "harness.cls_cooc": 5, "harness.C06_counts": 12,
             "harness.C18_distances": 30}


def IW():
    return loader.load("vectorizers.transformers.info_weight")


def RD():
    return loader.load("vectorizers.transformers.row_desnoise")


def _csc(nr, nc, unsorted=False):
    """symbolic-pattern CSC count matrix (values real >= 0)"""
    trip = []
    for j in range(nc):
        col = []
        for i in range(nr):
            if fresh_bool("stored%d_%d" % (i, j)):
                col.append((i, j, fresh_real("c%d_%d" % (i, j), 0)))
        trip.extend(col[::-1] if unsorted else col)
    indptr = [0]
    for j in range(nc):
        indptr.append(indptr[-1] + len([t for t in trip if t[1] == j]))
    data = [t[2] for t in trip]
    idx = [t[0] for t in trip]
    register("layout", {"fmt": "csc", "shape": [nr, nc], "data": data, "indices": idx, "indptr": indptr})
    return sp.csc_matrix((np.array(data, dtype=np.float64) if data else np.zeros(0, np.float64),
                          np.array(idx, dtype=np.int32) if idx else np.zeros(0, np.int32), np.array(indptr, dtype=np.int32)), shape=(nr, nc))


def h_iw_variants(ex, nr, nc, variant, unsorted):
    """approximate-prior and supervised information-weight kernels: every index they form stays inside its array"""
    iw = IW()
    s = fresh_real("prior_strength")
    assume(s > 0)
    register("prior_strength", s)
    m = _csc(nr, nc, unsorted)
    assume(sum((v for v in m.data._flat()), Q(0)) > 0)
    target = None
    if variant == "supervised":
        labels = [fresh_int("y%d" % i, 0, nr - 1) for i in range(nr)]
        register("target", labels)
        target = np.array(labels, dtype=np.int64)
    w = call(iw.information_weight, m, s, variant == "approx", target)
    check("one weight per column", tuple(w.shape) == (nc,))
    return None


def h_row_denoise(ex, nr, nc):
    """numba_multinomial_em_sparse through RowDenoisingTransformer: row slices, background lookups, result scatter"""
    rd = RD()
    vals = [[fresh_real("c%d_%d" % (i, j), 0) for j in range(nc)] for i in range(nr)]
    register("dense", vals)
    X = sp.csr_matrix(np.array(vals, dtype=np.float64))
    # precision >= 0.5 stops the fix-point loop before its first iteration (its body is whole-vector arithmetic only)
    est = rd.RowDenoisingTransformer(em_precision=0.6)
    call(est.fit, X.copy())
    if not hasattr(est, "background_model_"):
        raise PathAbort()
    out = call(est.transform, X.copy())
    check("shape", tuple(out.shape) == (nr, nc))
    return None


def own_cases(tier):
    cs = []
    g = [(2, 2, "approx", False), (2, 2, "approx", True), (2, 1, "supervised", True), (2, 2, "supervised", False)] if tier == "quick" else \
        [(nr, nc, v, u) for nr, nc in ((2, 2), (3, 2), (2, 3), (3, 1), (1, 2)) for v in ("approx", "supervised") for u in (False, True)]
    for nr, nc, v, u in g:
        cs.append(Case("info_weight_%s[%dx%d,%s]" % (v, nr, nc, "unsorted" if u else "sorted"), h_iw_variants,
                       dict(nr=nr, nc=nc, variant=v, unsorted=u), replay="C10:replay_iw", fast_ms=300,
                       functions=["transformers.info_weight.column_kl_divergence_approx_prior", "transformers.info_weight.supervised_column_kl",
                                  "transformers.info_weight.column_weights", "transformers.info_weight.information_weight"],
                       bounds={"rows": nr, "cols": nc, "variant": v, "pattern": "every subset of cells stored", "labels": "symbolic in 0..rows-1"}))
    for nr, nc in ([(2, 2), (1, 3)] if tier == "quick" else [(2, 2), (1, 3), (3, 2), (2, 3), (3, 3)]):
        cs.append(Case("row_denoise[%dx%d]" % (nr, nc), h_row_denoise, dict(nr=nr, nc=nc), replay="C10:replay_row_denoise", fast_ms=300,
                       functions=["transformers.row_desnoise.numba_multinomial_em_sparse", "transformers.row_desnoise.multinomial_em_sparse",
                                  "transformers.row_desnoise.RowDenoisingTransformer.fit", "transformers.row_desnoise.RowDenoisingTransformer.transform"],
                       assumptions=["row-denoising EM fix-point loop not unrolled (em_precision = 0.6 stops it before the first iteration; its body performs whole-vector arithmetic only)"],
                       bounds={"rows": nr, "cols": nc, "values": "reals >= 0 (zeros included: the sparsity pattern forks)"}))
    return cs


def cases(tier):
    cs = []
    for modname, filt, kw in HOSTS:
        mod = importlib.import_module(modname)
        n_host = 0
        for c in mod.cases(tier, **kw):
            if filt is not None and not any(c.name.startswith(f) for f in filt):
                continue
            n_host += 1
            if tier == "quick" and n_host > QUICK_CAP.get(modname, 1000):
                break
            env = dict(c.env)
            env["NUMBA_BOUNDSCHECK"] = "1"
            cs.append(Case(c.name, c.fn, c.params, replay=c.replay, witness=c.witness, bounds=c.bounds, stubs=c.stubs,
                           assumptions=c.assumptions, max_paths=c.max_paths, timeout_s=c.timeout_s, env=env, functions=c.functions,
                           max_witness=min(c.max_witness or 4, 4), shards=c.shards, shard_depth=c.shard_depth, fast_ms=c.fast_ms,
                           ack_first=False, memory_only=True))
    for c in own_cases(tier):
        c.memory_only = True
        c.env = dict(c.env, NUMBA_BOUNDSCHECK="1")
        cs.append(c)
    return cs
