"""C01 -- transform returns one row per input item in the fitted column space.

Re-uses the class-level harnesses (each executes the real fit and transform on a symbolic training corpus AND an
independent symbolic transform batch: unseen tokens / labels / characters / phrases, empty items, items shorter than
n are ordinary feasible paths) with the shape / column-meaning / no-exception assertions selected.
"""
from harness import cls_ngram, cls_edgelist, cls_skipgram, C16_lz, C09_bpe, cls_cooc, cls_cooc_family


def cases(tier):
    cs = cls_ngram.ngram_cases(tier, ["C01"]) + cls_skipgram.cases(tier, ("C01",)) + cls_edgelist.cases(tier)
    cs += [c for c in C16_lz.cases(tier)]
    cs += [c for c in C09_bpe.cases(tier) if c.name.startswith("bpe_matrix")]
    cs += [c for c in cls_cooc.cases(tier, props=("C01",)) if "tr=-" not in c.name]
    cs += [c for c in cls_cooc_family.cases(tier) if "tr=None" not in c.name]
    return cs
