"""C19 -- sliding windows contain exactly the documented in-range elements.

Real code: SlidingWindowTransformer.fit/transform, sliding_windows, build_matrix_kernel, averaging / difference /
weight kernels, SequentialDifferenceTransformer.  Width, stride and padding are symbolic (case split by the solver),
element values, pad value and weights are symbolic reals.
"""
from symx.runner import Case
from symx import loader
from symx.api import *  # noqa
from symx.values import sceil
from symx.shims import numpy_shim as np

FUNCS = ["transformers.sliding_windows.sliding_windows", "transformers.sliding_windows.build_matrix_kernel",
         "transformers.sliding_windows.SlidingWindowTransformer.fit", "transformers.sliding_windows.SlidingWindowTransformer.transform",
         "transformers.sliding_windows.SequentialDifferenceTransformer", "_window_kernels.averaging_kernel",
         "_window_kernels.difference_kernel", "_window_kernels.weight_kernel"]


def SW():
    return loader.load("vectorizers.transformers.sliding_windows")


def _sample_positions(form, width):
    """documented positions for each window_sample form -> (constructor argument, list of positions)"""
    if form == "none":
        return None, list(range(width))
    if form.startswith("int"):
        n = int(form[3:])
        return n, list(range(0, width, n))
    if form.startswith("pair"):
        a, b = [int(v) for v in form[4:].split("_")]
        return (a, b), list(range(a, width, b))
    if form.startswith("list"):
        idx = [int(v) for v in form[4:].split("_") if v != ""]
        return idx, idx
    raise ValueError(form)


def h_sliding(ex, L, ncol, sample_form, kernel, wmax=4):
    sw = SW()
    width = int(fresh_int("width", 1, wmax))
    stride = int(fresh_int("stride", 1, 3))
    pad = int(fresh_int("pad", 0, 2))
    padv = fresh_real("padv")
    register("width", width); register("stride", stride); register("pad", pad); register("pad_value", padv)
    arg, pos = _sample_positions(sample_form, width)
    assume(all(0 <= q < width for q in pos) and len(pos) >= 1)
    if sample_form.startswith("list"):
        assume(all(a < b for a, b in zip(pos, pos[1:])))
    Lp = L + 2 * pad
    assume(Lp >= width)
    if ncol == 0:
        seq = real_array("x", L)
        rows = [[seq[i]] for i in range(L)]
    else:
        vals = [[fresh_real("x%d_%d" % (i, j)) for j in range(ncol)] for i in range(L)]
        seq = np.array(vals, dtype=np.float64)
        rows = vals
    register("seq", seq.copy())
    d = max(ncol, 1)
    k = len(pos)
    # kernel configuration and its matrix (oracle side, written from the documentation)
    if kernel == "none":
        karg, K = None, [[Q(1) if a == b else Q(0) for b in range(k)] for a in range(k)]
    elif kernel == "average":
        karg, K = ["average"], [[Q(1, k)] * k]
    elif kernel.startswith("diff"):
        st, step, ds = [int(v) for v in kernel[4:].split("_")]
        nd = -((-(k - st - step)) // ds)
        assume(nd >= 1)
        karg = [("differences", st, step, ds)]
        K = []
        for j in range(nd):
            row = [Q(0)] * k
            row[st + j * ds] = Q(-1)
            row[st + j * ds + step] = Q(1)
            K.append(row)
    elif kernel == "weight":
        w = real_array("w", k)
        register("weights", w.copy())
        karg = [("weight", w)]
        K = [[w[a] if a == b else Q(0) for b in range(k)] for a in range(k)]
    else:
        raise ValueError(kernel)
    est = sw.SlidingWindowTransformer(window_width=width, window_stride=stride, window_sample=arg, kernels=karg,
                                      pad_width=pad, pad_value=padv)
    np.freeze(seq, "seq")
    call(est.fit, [seq])
    out = call(est.transform, [seq])
    check("one result per sequence", len(out) == 1)
    res = out[0]
    padded = [[padv] * d] * pad + rows + [[padv] * d] * pad
    n_rows = -((-(Lp - width + 1)) // stride)
    check("number of windows = ceil((L - width + 1) / stride)", res.shape[0] == n_rows, detail={"rows": res.shape[0], "want": n_rows})
    check("no uninitialised output", not has_poison(res))
    if res.shape[0] == n_rows and not has_poison(res):
        ok = res.shape[1] == len(K) * d
        check("window row length", ok)
        if ok:
            conds = []
            for i in range(n_rows):
                win = [padded[i * stride + q] for q in pos]
                for a, krow in enumerate(K):
                    for c in range(d):
                        e = Q(0)
                        for b in range(k):
                            e = e + krow[b] * win[b][c]
                        conds.append(res[i, a * d + c] == e)
            check("window contents = kernel applied to the sampled in-range entries", sand(*conds))
    return {"windows": res}


def h_seqdiff(ex, L, ncol):
    sw = SW()
    s = int(fresh_int("stride", 1, 3))
    assume(L >= s + 1)
    register("stride", s)
    if ncol == 0:
        seq = real_array("x", L)
        rows = [[seq[i]] for i in range(L)]
    else:
        rows = [[fresh_real("x%d_%d" % (i, j)) for j in range(ncol)] for i in range(L)]
        seq = np.array(rows, dtype=np.float64)
    register("seq", seq.copy())
    d = max(ncol, 1)
    est = sw.SequentialDifferenceTransformer(stride=s)
    call(est.fit, [seq])
    res = call(est.transform, [seq])[0]
    check("no uninitialised output", not has_poison(res))
    ok = tuple(res.shape) == (L - s, d)
    check("one difference per valid i", ok, detail={"shape": list(res.shape), "want": [L - s, d]})
    if ok:
        check("x[i + stride] - x[i]", sand(*[res[i, c] == rows[i + s][c] - rows[i][c] for i in range(L - s) for c in range(d)]))
    return {"diff": res}


def h_window_lemma(ex, sampled):
    """sliding_windows for EVERY sequence length, width and stride: the loop is replaced by one arbitrary iteration
    (sizes symbolic); every slice the kernel receives is a full in-range window [i*stride, i*stride + width) -- numpy
    would silently clamp a slice that runs past the end --, every output row index is in range, and the number of rows
    is exactly the number of window starts that fit"""
    import ast
    import os
    from harness.C07_plan import _OneIteration, _declared_locals
    path = os.path.join(loader.REPO, "vectorizers", "transformers", "sliding_windows.py")
    tree = ast.parse(open(path).read())
    fdef = [n for n in tree.body if isinstance(n, ast.FunctionDef) and n.name == "sliding_windows"][0]
    declared = _declared_locals(fdef)
    fdef.decorator_list = []
    fdef = ast.fix_missing_locations(_OneIteration(declared).visit(fdef))
    L = fresh_int("L", 1, 10 ** 6)
    width = fresh_int("width", 1, 10 ** 6)
    stride = fresh_int("stride", 1, 10 ** 6)
    assume(L >= width)
    register("L", L); register("width", width); register("stride", stride)
    slices, rows, shapes, hav = [], [], [], {}

    class _Win:
        def __getitem__(self, k):
            return self

    class _Seq:
        shape = (L,)
        dtype = np.float64

        def __getitem__(self, k):
            assert isinstance(k, slice) and k.step is None
            slices.append((k.start, k.stop))
            return _Win()

    class _Res:
        def __setitem__(self, k, v):
            rows.append(k)

    class _Sample:
        shape = ((width - 1) if sampled else width,)

    class _NP:
        @staticmethod
        def empty(shape, dtype=None):
            shapes.append(shape)
            return _Res()

        ceil = staticmethod(np.ceil)

    def _havoc(name, *a):
        v = fresh_int("iter_" + name)
        assume(sand(v >= 0, v < a[0]))
        hav[name] = v
        return v
    ns = {"np": _NP, "_havoc": _havoc, "_typed": lambda n, v: v, "int": loader.INJECT["int"], "tuple": tuple}
    exec(compile(ast.Module(body=[fdef], type_ignores=[]), path, "exec"), ns)
    assume(width >= 2 if sampled else True)
    call(ns["sliding_windows"], _Seq(), width, stride, _Sample(), lambda w: w, 1, np.float64, 0, 0)
    check("exactly one window is cut and one row written per iteration", len(slices) == 1 and len(rows) == 1 and len(shapes) == 1)
    if not (len(slices) == 1 and len(rows) == 1 and len(shapes) == 1):
        return None
    (a, b), n_rows, i = slices[0], shapes[0][0], hav["i"]
    check("the window is [i*stride, i*stride + width), entirely inside the sequence (no silent clamping)",
          sand(a == i * stride, b == a + width, a >= 0, b <= L))
    check("the row written is row i, inside the result", sand(rows[0] == i, rows[0] >= 0, rows[0] < n_rows))
    check("the number of windows is the number of starts that fit: (n-1)*stride + width <= L < n*stride + width",
          sand(n_rows >= 1, (n_rows - 1) * stride + width <= L, n_rows * stride + width > L))
    return None


def h_difference_lemma(ex):
    """difference_kernel for EVERY window width, start, step and stride: row i takes x[start + i*stride + step] -
    x[start + i*stride], both columns inside the window, and the number of rows is exactly the number of differences that
    fit (one arbitrary iteration, sizes symbolic)"""
    import ast
    import os
    from harness.C07_plan import _OneIteration
    path = os.path.join(loader.REPO, "vectorizers", "_window_kernels.py")
    tree = ast.parse(open(path).read())
    fdef = [n for n in tree.body if isinstance(n, ast.FunctionDef) and n.name == "difference_kernel"][0]
    fdef = ast.fix_missing_locations(_OneIteration({}).visit(fdef))
    n_cols = fresh_int("n_cols", 1, 10 ** 6)
    start = fresh_int("start", 0, 10 ** 6)
    step = fresh_int("step", 1, 10 ** 6)
    stride = fresh_int("stride", 1, 10 ** 6)
    assume(start + step < n_cols)         # at least one difference fits (the transformer's own validation requires it)
    register("n_cols", n_cols); register("start", start); register("step", step); register("stride", stride)
    writes, shapes, hav = [], [], {}

    class _Res:
        def __setitem__(self, k, v):
            writes.append((k, v))

    class _NP:
        ceil = staticmethod(np.ceil)

        @staticmethod
        def zeros(shape, dtype=None):
            shapes.append(shape)
            return _Res()

    def _havoc(name, *a):
        v = fresh_int("iter_" + name)
        assume(sand(v >= 0, v < a[0]))
        hav[name] = v
        return v
    ns = {"np": _NP, "_havoc": _havoc, "_typed": lambda a, b: b, "int": loader.INJECT["int"]}
    exec(compile(ast.Module(body=[fdef], type_ignores=[]), path, "exec"), ns)
    call(ns["difference_kernel"], n_cols, start, step, stride)
    check("one row: one -1 and one +1", len(writes) == 2 and len(shapes) == 1)
    if len(writes) != 2 or len(shapes) != 1:
        return None
    n_diff = shapes[0][0]
    i = hav["i"]
    (k0, v0), (k1, v1) = writes
    check("row i has -1 at column start + i*stride and +1 at column start + i*stride + step, both inside the window",
          sand(k0[0] == i, k1[0] == i, k0[1] == start + i * stride, k1[1] == start + i * stride + step, k0[1] >= 0, k1[1] < n_cols) and v0 == -1 and v1 == 1)
    check("the number of rows is the number of differences that fit",
          sand(n_diff >= 1, start + (n_diff - 1) * stride + step < n_cols, start + n_diff * stride + step >= n_cols))
    return None


def cases(tier):
    cs = []
    if tier == "quick":
        grid = [(5, 0, "none", "none"), (4, 0, "int2", "none"), (5, 0, "pair1_2", "average"), (4, 2, "none", "none"),
                (5, 0, "list0_2", "weight"), (5, 0, "none", "diff0_1_1"), (4, 0, "none", "diff0_2_1"), (3, 2, "int2", "average"),
                (5, 0, "list1_2_3", "none"), (5, 0, "int3", "weight")]
        dgrid = [(4, 0), (5, 2)]
    else:
        grid = [(L, nc, sf, k) for L in (3, 5, 7, 8) for nc in (0, 2)
                for sf in ("none", "int2", "int3", "pair1_2", "pair0_3", "list0_2", "list1_3", "list0_1_3")
                for k in ("none", "average", "weight", "diff0_1_1", "diff0_2_1", "diff1_1_2")]
        dgrid = [(L, nc) for L in (2, 4, 6, 8) for nc in (0, 2)]
    for L, nc, sf, k in grid:
        cs.append(Case("sliding[L=%d,cols=%d,sample=%s,kernel=%s]" % (L, nc, sf, k), h_sliding,
                       dict(L=L, ncol=nc, sample_form=sf, kernel=k), replay="C19:replay_sliding", witness="C19:witness_sliding",
                       bounds={"L": L, "columns": nc or "1-d", "width": "1..4 symbolic", "stride": "1..3 symbolic", "pad_width": "0..2 symbolic",
                               "window_sample": sf, "kernel": k, "values": "reals"}, functions=FUNCS, max_witness=4))
    cs.append(Case("difference_lemma[all sizes]", h_difference_lemma, {}, replay="C19:replay_difference_lemma", functions=["_window_kernels.difference_kernel"],
                   fast_ms=3000, bounds={"n_cols, start, step, stride": "symbolic up to 10^6, start + step < n_cols"}))
    for sampled in (False, True):
        cs.append(Case("window_lemma[all sizes,%s]" % ("sampled" if sampled else "full window"), h_window_lemma, dict(sampled=sampled),
                       replay="C19:replay_window_lemma", functions=FUNCS[:1], fast_ms=3000,
                       assumptions=["pad_width = 0 in the lemma (padding only lengthens the sequence before the loop)",
                                    "np.ceil of the float quotient is the exact integer ceiling (exact below 2^53; L <= 10^6 here)",
                                    "loop replaced by one arbitrary iteration (the body carries no state between iterations)"],
                       bounds={"L, width, stride": "symbolic 1 .. 10^6, L >= width", "iteration": "arbitrary i"}))
    for L, nc in dgrid:
        cs.append(Case("seqdiff[L=%d,cols=%d]" % (L, nc), h_seqdiff, dict(L=L, ncol=nc), replay="C19:replay_seqdiff",
                       bounds={"L": L, "columns": nc or "1-d", "stride": "1..3 symbolic"}, functions=FUNCS))
    return cs
