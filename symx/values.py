"""symx.values -- symbolic scalar proxies (Int / Real / Bool), exact rationals, poison."""
import math
import z3
from fractions import Fraction
from . import core
from .core import PathAbort, PoisonFault

INF = float("inf")
IEEE_DIV = None    # set by symx.fp.enable(): int / int -> binary64 SFloat
FP_ITE = None
SFLOAT = None


class Q(Fraction):
    """exact rational used for concrete float data in Real mode; floats are converted exactly."""
    __slots__ = ()

    def __new__(cls, x=0, d=None):
        if d is None and isinstance(x, float):
            if x != x or x in (INF, -INF):
                raise ValueError("non-finite")
        return Fraction.__new__(cls, x, d)

    def __repr__(self):
        return "Q(%s)" % Fraction.__str__(self)


def _qify(x):
    if isinstance(x, Q):
        return x
    if isinstance(x, bool):
        return Q(int(x))
    if isinstance(x, (int, Fraction)):
        return Q(x)
    if isinstance(x, float):
        if x != x or x in (INF, -INF):
            return x
        return Q(x)
    return x


def _mk_q_op(name, rname):
    fop = getattr(Fraction, name)

    def op(a, b):
        if isinstance(b, (SInt, SReal, SBool)) or type(b).__name__ in ("ndarray", "SFloat"):
            return NotImplemented
        b = _qify(b)
        if isinstance(b, float):
            return getattr(float, name)(float(a), b)
        r = fop(a, b)
        if r is NotImplemented:
            return r
        return Q(r) if isinstance(r, Fraction) else r

    def rop(a, b):
        if isinstance(b, (SInt, SReal, SBool)) or type(b).__name__ in ("ndarray", "SFloat"):
            return NotImplemented
        b = _qify(b)
        if isinstance(b, float):
            return getattr(float, name)(b, float(a))
        r = fop(b, a)
        if r is NotImplemented:
            return r
        return Q(r) if isinstance(r, Fraction) else r
    return op, rop


for _n in ("add", "sub", "mul", "truediv"):
    _o, _r = _mk_q_op("__%s__" % _n, "__r%s__" % _n)
    setattr(Q, "__%s__" % _n, _o)
    setattr(Q, "__r%s__" % _n, _r)
Q.__neg__ = lambda a: Q(Fraction.__neg__(a))
Q.__abs__ = lambda a: Q(Fraction.__abs__(a))
Q.__pos__ = lambda a: a


def _q_pow(a, b):
    if isinstance(b, int):
        return Q(Fraction.__pow__(a, b))
    if not isinstance(b, (float, Fraction)):
        return NotImplemented
    return float(a) ** float(b)


Q.__pow__ = _q_pow


def _q_cmp(name):
    fop = getattr(Fraction, name)

    def op(a, b):
        if isinstance(b, (SInt, SReal, SBool)):
            return NotImplemented
        return fop(a, b)
    return op


for _n in ("__lt__", "__le__", "__gt__", "__ge__", "__eq__"):
    setattr(Q, _n, _q_cmp(_n))
Q.__hash__ = Fraction.__hash__


class Poison:
    """uninitialised memory (np.empty) / never-assigned value.  Any use is a fault."""
    __slots__ = ("why",)

    def __init__(self, why="uninitialised"):
        self.why = why

    def _f(self, *a, **k):
        raise PoisonFault("use of %s value" % self.why)
    __add__ = __radd__ = __sub__ = __rsub__ = __mul__ = __rmul__ = __truediv__ = __rtruediv__ = _f
    __lt__ = __le__ = __gt__ = __ge__ = __eq__ = __ne__ = __bool__ = __neg__ = __abs__ = _f
    __floordiv__ = __mod__ = __index__ = __int__ = __float__ = _f
    __hash__ = None

    def __repr__(self):
        return "Poison(%s)" % self.why


class NaN:
    """result of an undefined floating operation (0/0, x/0 in array arithmetic, sqrt/log of negative)."""
    __slots__ = ("why",)

    def __init__(self, why="nan"):
        self.why = why

    def _p(self, *a, **k):
        return self
    __add__ = __radd__ = __sub__ = __rsub__ = __mul__ = __rmul__ = __truediv__ = __rtruediv__ = _p
    __neg__ = __abs__ = _p

    def _c(self, *a):
        return False
    __lt__ = __le__ = __gt__ = __ge__ = __eq__ = _c

    def __ne__(self, o):
        return True
    __hash__ = None

    def __bool__(self):
        return True

    def __repr__(self):
        return "NaN(%s)" % self.why


def is_sym(x):
    return isinstance(x, (SInt, SReal, SBool))


def is_num(x):
    return isinstance(x, (int, float, Fraction, SInt, SReal, SBool))


def lift(x):
    if isinstance(x, (SInt, SReal, SBool)):
        return x.e
    if isinstance(x, bool):
        return z3.BoolVal(x)
    if isinstance(x, int):
        return z3.IntVal(x)
    if isinstance(x, Fraction):
        return z3.RealVal(x)
    if isinstance(x, float):
        if x != x or x in (INF, -INF):
            raise TypeError("non-finite float in symbolic arithmetic")
        return z3.RealVal(Fraction(x))
    if isinstance(x, z3.ExprRef):
        return x
    raise TypeError("cannot lift %r" % type(x))


_IntSort = z3.IntSort()
_RealSort = z3.RealSort()
_BoolSort = z3.BoolSort()


def wrap(e):
    s = e.sort()
    if s == _IntSort:
        if z3.is_int_value(e):
            return e.as_long()
        return SInt(e)
    if s == _RealSort:
        if z3.is_rational_value(e):
            return Q(e.numerator_as_long(), e.denominator_as_long())
        return SReal(e)
    if s == _BoolSort:
        if z3.is_true(e):
            return True
        if z3.is_false(e):
            return False
        return SBool(e)
    raise TypeError(s)


def wraps(e):
    return wrap(z3.simplify(e))


def _num_e(x):
    """numeric z3 term for x (bools become 0/1 ints)"""
    if isinstance(x, SBool):
        return z3.If(x.e, z3.IntVal(1), z3.IntVal(0))
    if isinstance(x, bool):
        return z3.IntVal(int(x))
    return lift(x)


def _pair(a, b):
    ea, eb = _num_e(a), _num_e(b)
    if ea.sort() != eb.sort():
        if ea.sort() == _IntSort:
            ea = z3.ToReal(ea)
        if eb.sort() == _IntSort:
            eb = z3.ToReal(eb)
    return ea, eb


def _defer(o):
    return not isinstance(o, (int, float, Fraction, SInt, SReal, SBool))


class SBool:
    __slots__ = ("e",)

    def __init__(self, e):
        self.e = e

    def __bool__(self):
        return core.EX.branch(z3.simplify(self.e))

    def __and__(self, o):
        if _defer(o):
            return NotImplemented
        return wrap(z3.And(self.e, lift(bool(o) if isinstance(o, int) and not isinstance(o, bool) else o)))
    __rand__ = __and__

    def __or__(self, o):
        if _defer(o):
            return NotImplemented
        return wrap(z3.Or(self.e, lift(bool(o) if isinstance(o, int) and not isinstance(o, bool) else o)))
    __ror__ = __or__

    def __invert__(self):
        return wrap(z3.Not(self.e))

    def __xor__(self, o):
        return wrap(z3.Xor(self.e, lift(o)))

    def __eq__(self, o):
        if isinstance(o, (bool, SBool)):
            return wrap(self.e == lift(o))
        if _defer(o):
            return NotImplemented
        a, b = _pair(self, o)
        return wrap(a == b)

    def __ne__(self, o):
        r = self.__eq__(o)
        if r is NotImplemented:
            return r
        return ~r if isinstance(r, SBool) else (not r)
    __hash__ = None

    # arithmetic on booleans (True == 1)
    def _n(self):
        return SInt(_num_e(self))

    def __add__(self, o): return self._n() + o
    def __radd__(self, o): return o + self._n()
    def __mul__(self, o):
        if isinstance(o, (SBool, bool)):
            return self & o
        return self._n() * o
    def __rmul__(self, o):
        if isinstance(o, (SBool, bool)):
            return self & o
        return o * self._n()
    def __sub__(self, o): return self._n() - o
    def __rsub__(self, o): return o - self._n()
    def __int__(self): return self._n()
    def __lt__(self, o): return self._n() < o
    def __gt__(self, o): return self._n() > o
    def __le__(self, o): return self._n() <= o
    def __ge__(self, o): return self._n() >= o

    def __repr__(self):
        return "SBool(%s)" % self.e


def sand(*xs):
    out = []
    for x in xs:
        if isinstance(x, SBool):
            out.append(x.e)
        elif isinstance(x, z3.ExprRef):
            out.append(x)
        elif not x:
            return False
    if not out:
        return True
    return wrap(z3.And(*out)) if len(out) > 1 else wrap(out[0])


def sor(*xs):
    out = []
    for x in xs:
        if isinstance(x, SBool):
            out.append(x.e)
        elif isinstance(x, z3.ExprRef):
            out.append(x)
        elif x:
            return True
    if not out:
        return False
    return wrap(z3.Or(*out)) if len(out) > 1 else wrap(out[0])


def snot(x):
    if isinstance(x, SBool):
        return wrap(z3.Not(x.e))
    return not x


def simplies(a, b):
    return sor(snot(a), b)


def ite(c, a, b):
    """symbolic if-then-else without forking"""
    if not isinstance(c, SBool):
        return a if c else b
    if SFLOAT is not None and (isinstance(a, SFLOAT) or isinstance(b, SFLOAT)):
        return FP_ITE(c, a, b)
    if isinstance(a, (bool, SBool)) and isinstance(b, (bool, SBool)):
        return wrap(z3.If(c.e, lift(a), lift(b)))
    ea, eb = _pair(a, b)
    return wrap(z3.If(c.e, ea, eb))


def _cmpinf(s, o, op):
    # comparisons against +-inf
    if o == INF:
        return op in ("lt", "le", "ne")
    if o == -INF:
        return op in ("gt", "ge", "ne")
    return op == "ne"  # nan


class _Num:
    __slots__ = ()

    def __add__(s, o):
        if _defer(o):
            return NotImplemented
        if isinstance(o, int) and not isinstance(o, bool) and o == 0 and isinstance(s, SInt):
            return s
        a, b = _pair(s, o)
        return wrap(a + b)

    def __radd__(s, o):
        if _defer(o):
            return NotImplemented
        if isinstance(o, int) and not isinstance(o, bool) and o == 0 and isinstance(s, SInt):
            return s
        a, b = _pair(o, s)
        return wrap(a + b)

    def __sub__(s, o):
        if _defer(o):
            return NotImplemented
        a, b = _pair(s, o)
        return wraps(a - b) if isinstance(o, _Num) else wrap(a - b)

    def __rsub__(s, o):
        if _defer(o):
            return NotImplemented
        a, b = _pair(o, s)
        return wrap(a - b)

    def __mul__(s, o):
        if _defer(o):
            return NotImplemented
        if not isinstance(o, (_Num, SBool)):
            if o == 0:
                return 0 if isinstance(s, SInt) and isinstance(o, int) else Q(0)
            if o == 1 and (isinstance(o, int) or isinstance(s, SReal)):
                return s
        a, b = _pair(s, o)
        return wrap(a * b)

    def __rmul__(s, o):
        return s.__mul__(o)

    def __neg__(s):
        return wrap(-s.e)

    def __pos__(s):
        return s

    def _cmp(s, o, opname, f):
        if _defer(o):
            return NotImplemented
        if isinstance(o, float) and (o != o or o in (INF, -INF)):
            return _cmpinf(s, o, opname)
        a, b = _pair(s, o)
        return wrap(f(a, b))

    def __lt__(s, o): return s._cmp(o, "lt", lambda a, b: a < b)
    def __le__(s, o): return s._cmp(o, "le", lambda a, b: a <= b)
    def __gt__(s, o): return s._cmp(o, "gt", lambda a, b: a > b)
    def __ge__(s, o): return s._cmp(o, "ge", lambda a, b: a >= b)

    def __eq__(s, o):
        if o is None or isinstance(o, (str, tuple, list)):
            return False
        if isinstance(o, (NaN,)):
            return False
        if _defer(o):
            return NotImplemented
        if isinstance(o, float) and (o != o or o in (INF, -INF)):
            return False
        a, b = _pair(s, o)
        return wraps(a == b)

    def __ne__(s, o):
        if o is None or isinstance(o, (str, tuple, list)):
            return True
        if isinstance(o, (NaN,)):
            return True
        if _defer(o):
            return NotImplemented
        if isinstance(o, float) and (o != o or o in (INF, -INF)):
            return True
        a, b = _pair(s, o)
        return wraps(a != b)

    def __abs__(s):
        return wrap(z3.If(s.e >= 0, s.e, -s.e))

    def __bool__(s):
        return core.EX.branch(z3.simplify(s.e != 0))

    def __truediv__(s, o):
        if _defer(o):
            return NotImplemented
        if is_sym(o):
            if o == 0:
                raise ZeroDivisionError("division by zero")
        elif o == 0:
            raise ZeroDivisionError("division by zero")
        if IEEE_DIV is not None and isinstance(s, SInt) and isinstance(o, (int, SInt)):
            return IEEE_DIV(s, o)
        a, b = _pair(s, o)
        if a.sort() == _IntSort:
            a = z3.ToReal(a)
            b = z3.ToReal(b)
        return wrap(a / b)

    def __rtruediv__(s, o):
        if _defer(o):
            return NotImplemented
        if s == 0:
            raise ZeroDivisionError("division by zero")
        if IEEE_DIV is not None and isinstance(s, SInt) and isinstance(o, (int, SInt)):
            return IEEE_DIV(o, s)
        a, b = _pair(o, s)
        if a.sort() == _IntSort:
            a = z3.ToReal(a)
            b = z3.ToReal(b)
        return wrap(a / b)

    def __pow__(s, o):
        if _defer(o):
            return NotImplemented
        if isinstance(o, int) and not isinstance(o, bool) and 0 <= o <= 8:
            r = 1
            for _ in range(o):
                r = r * s
            return r
        if isinstance(o, (float, Fraction)) and o == 0.5:
            return ssqrt(s)
        if isinstance(o, (float, Fraction)) and float(o).is_integer() and 0 <= o <= 8:
            r = Q(1)
            for _ in range(int(o)):
                r = r * s
            return r
        return upow(s, o)

    def __rpow__(s, o):
        if _defer(o):
            return NotImplemented
        return upow(o, s)
    __hash__ = None


def _floordiv_e(a, b):
    # python floor division on z3 ints; z3 div rounds so that the remainder is non-negative
    return z3.If(b > 0, a / b, (-a) / (-b))


class SInt(_Num):
    __slots__ = ("e",)

    def __init__(self, e):
        self.e = e

    def _divcheck(s, o):
        if is_sym(o):
            if o == 0:
                raise ZeroDivisionError("integer division or modulo by zero")
        elif o == 0:
            raise ZeroDivisionError("integer division or modulo by zero")

    def __floordiv__(s, o):
        if _defer(o):
            return NotImplemented
        if isinstance(o, (float, Fraction, SReal)):
            return sfloor(s / o)
        s._divcheck(o)
        if isinstance(o, int) and o > 0:
            return wrap(s.e / z3.IntVal(o))
        return wrap(_floordiv_e(s.e, lift(o)))

    def __rfloordiv__(s, o):
        if _defer(o):
            return NotImplemented
        if isinstance(o, (float, Fraction, SReal)):
            return sfloor(o / s)
        s._divcheck(s)
        return wrap(_floordiv_e(lift(o), s.e))

    def __mod__(s, o):
        if _defer(o):
            return NotImplemented
        s._divcheck(o)
        if isinstance(o, int) and o > 0:
            return wrap(s.e % z3.IntVal(o))
        eo = lift(o)
        return wrap(s.e - eo * _floordiv_e(s.e, eo))

    def __rmod__(s, o):
        if _defer(o):
            return NotImplemented
        s._divcheck(s)
        eo = lift(o)
        return wrap(eo - s.e * _floordiv_e(eo, s.e))

    def __divmod__(s, o):
        return (s // o, s % o)

    def __index__(s):
        return core.EX.choose(s.e, "index")

    def __int__(s):
        return s.__index__()

    def __float__(s):
        raise TypeError("float() of a symbolic int")

    def __repr__(s):
        return "SInt(%s)" % s.e


class SReal(_Num):
    __slots__ = ("e",)

    def __init__(self, e):
        self.e = e

    def __floordiv__(s, o):
        if _defer(o):
            return NotImplemented
        return sfloor(s / o)

    def __rfloordiv__(s, o):
        if _defer(o):
            return NotImplemented
        return sfloor(o / s)

    def __repr__(s):
        return "SReal(%s)" % s.e


# ----------------------------------------------------------------- functions
def to_real(x):
    if isinstance(x, SInt):
        return SReal(z3.ToReal(x.e))
    if isinstance(x, SBool):
        return SReal(z3.ToReal(_num_e(x)))
    if isinstance(x, SReal):
        return x
    if isinstance(x, (Poison, NaN)):
        return x
    if isinstance(x, float) and (x != x or x in (INF, -INF)):
        return x
    return Q(x)


def sfloor(x):
    if isinstance(x, SReal):
        return wrap(z3.ToInt(x.e))
    if isinstance(x, (SInt, int)):
        return x
    return math.floor(x)


def sceil(x):
    if isinstance(x, SReal):
        return wrap(-z3.ToInt(-x.e))
    if isinstance(x, (SInt, int)):
        return x
    return math.ceil(x)


def strunc(x):
    """int(x): truncation toward zero"""
    if isinstance(x, SReal):
        return wrap(z3.If(x.e >= 0, z3.ToInt(x.e), -z3.ToInt(-x.e)))
    if isinstance(x, (SInt, int)):
        return x
    if isinstance(x, SBool):
        return x._n()
    return int(x)


def sround(x):
    """round half to even (numpy / python semantics), result integer-valued"""
    if isinstance(x, SReal):
        h = x.e + z3.RealVal(Fraction(1, 2))
        r = z3.ToInt(h)
        tie = z3.ToReal(r) == h
        return wrap(z3.If(z3.And(tie, r % 2 != 0), r - 1, r))
    if isinstance(x, (SInt, int)):
        return x
    return int(round(x))


def smax(a, b):
    if not is_sym(a) and not is_sym(b):
        return a if a >= b else b
    c = a >= b
    return ite(c, a, b)


def smin(a, b):
    if not is_sym(a) and not is_sym(b):
        return a if a <= b else b
    c = a <= b
    return ite(c, a, b)


def sabs(x):
    return abs(x)


def ssqrt(x):
    """exact algebraic square root: s = SQRT(x) (uninterpreted, so equal arguments give equal roots by
    congruence) with the defining axioms s >= 0 and s*s == x; negative argument -> NaN"""
    if isinstance(x, (NaN, Poison)):
        return x
    if not is_sym(x):
        if x < 0:
            return NaN("sqrt of negative")
        f = Fraction(x)
        n, d = math.isqrt(f.numerator), math.isqrt(f.denominator)
        if n * n == f.numerator and d * d == f.denominator:
            return Q(n, d)
    elif x < 0:
        return NaN("sqrt of negative")
    s = ufun("sqrt", x)
    core.EX.add(z3.And(s.e >= 0, s.e * s.e == lift(to_real(x))))
    return s


_UF = {}


def ufun(name, *args):
    """uninterpreted real function application (log, exp, pow ...)"""
    key = (name, len(args))
    f = _UF.get(key)
    if f is None:
        f = z3.Function(name, *([_RealSort] * (len(args) + 1)))
        _UF[key] = f
    es = []
    for a in args:
        a = to_real(a)
        es.append(lift(a))
    return SReal(f(*es))


def slog(x):
    if not is_sym(x):
        if isinstance(x, (NaN, Poison)):
            return x
        if x < 0:
            return NaN("log of negative")
        if x == 0:
            return -INF
        if x == 1:
            return Q(0)
    else:
        if x < 0:
            return NaN("log of negative")
        if x == 0:
            return -INF
    r = ufun("log", x)
    ex = core.EX
    if getattr(ex, "_log_axiom_path", None) != ex.stats.paths:
        ex._log_axiom_path = ex.stats.paths
        ex.add(_UF[("log", 1)](z3.RealVal(1)) == 0)       # log(1) = 0: the one value of log that is fixed
    return r


def sexp(x):
    if not is_sym(x) and x == 0:
        return Q(1)
    return ufun("exp", x)


def upow(a, b):
    if not is_sym(a) and not is_sym(b):
        return _qify(float(a) ** float(b))
    return ufun("pow", a, b)


def fresh_name(name):
    ex = core.EX
    ex.fresh_counter += 1
    return "%s!%d" % (name, ex.fresh_counter)


def fresh_int(name, lo=None, hi=None):
    v = z3.Int(fresh_name(name))
    ex = core.EX
    if lo is not None:
        ex.solver.add(v >= lo)
    if hi is not None:
        ex.solver.add(v <= hi)
    ex.model = None
    return SInt(v)


def fresh_real(name, lo=None, hi=None):
    v = z3.Real(fresh_name(name))
    ex = core.EX
    if lo is not None:
        ex.solver.add(v >= lift(lo))
    if hi is not None:
        ex.solver.add(v <= lift(hi))
    if lo is not None or hi is not None:
        ex.model = None
    return SReal(v)


def fresh_bool(name):
    return SBool(z3.Bool(fresh_name(name)))


_MATH_UF = {"log": math.log, "exp": math.exp, "sqrt": math.sqrt, "pow": lambda a, b: float(a) ** float(b)}


def _has_uf(e, seen=None):
    seen = set() if seen is None else seen
    stack = [e]
    while stack:
        t = stack.pop()
        if t.get_id() in seen:
            continue
        seen.add(t.get_id())
        if z3.is_app(t):
            d = t.decl()
            if d.kind() == z3.Z3_OP_UNINTERPRETED and t.num_args() > 0 and d.name() in _MATH_UF:
                return True
            stack.extend(t.children())
    return False


def eval_numeric(e, model):
    """evaluate a Real/Int/Bool term under a model with the uninterpreted log/exp/sqrt/pow replaced by the true
    functions (floating point) -- used for path witnesses whose symbolic result mentions them"""
    cache = {}

    def ev(t):
        k = t.get_id()
        if k in cache:
            return cache[k]
        r = _ev(t)
        cache[k] = r
        return r

    def _ev(t):
        if z3.is_rational_value(t):
            return t.numerator_as_long() / t.denominator_as_long()
        if z3.is_int_value(t):
            return t.as_long()
        if z3.is_true(t):
            return True
        if z3.is_false(t):
            return False
        d = t.decl()
        kind = d.kind()
        ch = t.children()
        if kind == z3.Z3_OP_UNINTERPRETED:
            if not ch:
                v = model.eval(t, model_completion=True)
                if z3.is_algebraic_value(v):
                    v = v.approx(20)
                return ev(v)
            f = _MATH_UF.get(d.name())
            if f is None:
                return ev(model.eval(t, model_completion=True))
            return f(*[ev(c) for c in ch])
        if kind == z3.Z3_OP_ADD:
            return sum(ev(c) for c in ch)
        if kind == z3.Z3_OP_MUL:
            r = 1
            for c in ch:
                r = r * ev(c)
            return r
        if kind == z3.Z3_OP_SUB:
            r = ev(ch[0])
            for c in ch[1:]:
                r = r - ev(c)
            return r
        if kind == z3.Z3_OP_UMINUS:
            return -ev(ch[0])
        if kind == z3.Z3_OP_DIV:
            return ev(ch[0]) / ev(ch[1])
        if kind == z3.Z3_OP_IDIV:
            return ev(ch[0]) // ev(ch[1])
        if kind == z3.Z3_OP_MOD:
            return ev(ch[0]) % ev(ch[1])
        if kind == z3.Z3_OP_TO_REAL:
            return ev(ch[0])
        if kind == z3.Z3_OP_TO_INT:
            return math.floor(ev(ch[0]))
        if kind == z3.Z3_OP_ITE:
            return ev(ch[1]) if ev(ch[0]) else ev(ch[2])
        if kind == z3.Z3_OP_AND:
            return all(ev(c) for c in ch)
        if kind == z3.Z3_OP_OR:
            return any(ev(c) for c in ch)
        if kind == z3.Z3_OP_NOT:
            return not ev(ch[0])
        if kind == z3.Z3_OP_IMPLIES:
            return (not ev(ch[0])) or ev(ch[1])
        if kind == z3.Z3_OP_EQ:
            return ev(ch[0]) == ev(ch[1])
        if kind == z3.Z3_OP_DISTINCT:
            vs = [ev(c) for c in ch]
            return len(set(vs)) == len(vs)
        if kind == z3.Z3_OP_LE:
            return ev(ch[0]) <= ev(ch[1])
        if kind == z3.Z3_OP_LT:
            return ev(ch[0]) < ev(ch[1])
        if kind == z3.Z3_OP_GE:
            return ev(ch[0]) >= ev(ch[1])
        if kind == z3.Z3_OP_GT:
            return ev(ch[0]) > ev(ch[1])
        if kind == z3.Z3_OP_POWER:
            return ev(ch[0]) ** ev(ch[1])
        raise ValueError("eval_numeric: unsupported operator %s" % d.name())
    return ev(e)


def concretize_struct(v, model):
    """evaluate a structure of symbolic values under a model -> plain JSON-able python"""
    if isinstance(v, (SInt,)):
        return model.eval(v.e, model_completion=True).as_long()
    if isinstance(v, SReal):
        if _has_uf(v.e):
            return float(eval_numeric(v.e, model))
        r = model.eval(v.e, model_completion=True)
        if z3.is_rational_value(r):
            return float(Fraction(r.numerator_as_long(), r.denominator_as_long()))
        if z3.is_algebraic_value(r):
            r = r.approx(20)
            return float(Fraction(r.numerator_as_long(), r.denominator_as_long()))
        return str(r)
    if isinstance(v, SBool):
        return z3.is_true(model.eval(v.e, model_completion=True))
    if isinstance(v, Fraction):
        return float(v) if v.denominator != 1 else (float(v))
    if isinstance(v, (bool, int, float, str)) or v is None:
        return v
    if isinstance(v, (Poison, NaN)):
        return repr(v)
    if isinstance(v, (list, tuple)):
        return [concretize_struct(x, model) for x in v]
    if hasattr(v, "_concretize"):
        return v._concretize(model)
    if isinstance(v, dict):
        return {str(k): concretize_struct(x, model) for k, x in v.items()}
    return repr(v)
