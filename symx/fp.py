"""symx.fp -- IEEE-754 mode: bit-precise floats (z3 FloatingPoint) with numpy (NEP 50) or numba promotion.

Used only where rounding *is* the property (C05 'count equal to the bound', C18 hellinger NaN, C03 timestamps).
Integer quantities that are converted to floats are bit-vector backed (SIntBV) and converted with
fpUnsignedToFP: going through Int -> Real -> FP makes z3 time out.
"""
import z3
from fractions import Fraction
from . import core, values
from .values import SInt, SBool, SReal, Q, wrap, lift, is_sym

F16, F32, F64 = z3.Float16(), z3.Float32(), z3.Float64()
RNE = z3.RNE()
SORTS = {"float16": F16, "float32": F32, "float64": F64}

# promotion semantics for Python float operands: 'numpy' (NEP 50: python floats are weak) or 'numba'
# (python float literals are float64, strong)
SEMANTICS = "numpy"


class SIntBV(SInt):
    """non-negative symbolic integer backed by a bit-vector (exact conversion to floating point)"""
    __slots__ = ("bv",)

    def __init__(self, bv):
        SInt.__init__(self, z3.BV2Int(bv))
        self.bv = bv


def fresh_bv_int(name, lo, hi, width=32):
    v = z3.BitVec(values.fresh_name(name), width)
    ex = core.EX
    ex.solver.add(z3.UGE(v, lo), z3.ULE(v, hi))
    ex.model = None
    return SIntBV(v)


class SFloat:
    __slots__ = ("e", "weak")

    def __init__(self, e, weak=False):
        self.e = e
        self.weak = weak

    @property
    def sort(self):
        return self.e.sort()

    def to(self, sort):
        if self.e.sort() == sort:
            return self.e
        return z3.fpToFP(RNE, self.e, sort)

    def astype(self, name):
        return SFloat(self.to(SORTS[name]), False)

    def to_int(self):
        raise core.Unmodelled("float -> int conversion in IEEE mode")

    def sqrt(self):
        return SFloat(z3.fpSqrt(RNE, self.e), self.weak)

    def is_nan(self):
        return SBool(z3.fpIsNaN(self.e))

    def __neg__(self):
        return SFloat(z3.fpNeg(self.e), self.weak)

    def __abs__(self):
        return SFloat(z3.fpAbs(self.e), self.weak)

    def __bool__(self):
        return core.EX.branch(z3.simplify(z3.Not(z3.fpIsZero(self.e))))

    def __repr__(self):
        return "SFloat(%s%s)" % ("weak " if self.weak else "", self.e.sort())
    __hash__ = None

    def _concretize(self, model):
        v = model.eval(self.e, model_completion=True)
        try:
            if z3.is_fp(v):
                if v.isNaN():
                    return "nan"
                if v.isInf():
                    return "-inf" if v.isNegative() else "inf"
                # exact value as a python float (binary64 holds every binary32/64 value)
                sign = -1.0 if v.sign() else 1.0
                if v.isZero():
                    return sign * 0.0
                sig = float(Fraction(v.significand_as_long(), 1 << (v.sbits() - 1)))
                if v.isSubnormal():
                    # subnormals: value = significand(without hidden bit) * 2^(emin)
                    return float(sign * Fraction(v.significand_as_long(), 1 << (v.sbits() - 1)) * Fraction(2) ** (2 - (1 << (v.ebits() - 1))))
                return float(sign * (1 + Fraction(v.significand_as_long(), 1 << (v.sbits() - 1))) * Fraction(2) ** v.exponent_as_long(False))
        except Exception:
            pass
        return str(v)


def from_int(x, sort):
    if isinstance(x, bool):
        x = int(x)
    if isinstance(x, int):
        return z3.FPVal(x, sort)
    bv = getattr(x, "bv", None)
    if bv is not None:
        return z3.fpUnsignedToFP(RNE, bv, sort)
    return z3.fpToFP(RNE, z3.ToReal(lift(x)), sort)


def from_pyfloat(x):
    return SFloat(z3.FPVal(float(x), F64), weak=(SEMANTICS == "numpy"))


def const(x, name="float64"):
    return SFloat(z3.FPVal(float(x), SORTS[name]), False)


def fresh(name, dtype="float64"):
    return SFloat(z3.FP(values.fresh_name(name), SORTS[dtype]), False)


def _asf(x):
    if isinstance(x, SFloat):
        return x
    if isinstance(x, (float, Fraction)):
        return from_pyfloat(x)
    if isinstance(x, (int, SInt, bool)):
        return ("int", x)
    raise TypeError("IEEE mode: unsupported operand %r" % type(x))


def coerce_pair(a, b):
    a, b = _asf(a), _asf(b)
    if isinstance(a, tuple) and isinstance(b, tuple):
        raise TypeError("two integers in float coercion")
    if isinstance(a, tuple):     # integer operand: adopts the float operand's type (python int is weak; for int64 arrays
        return from_int(a[1], b.sort if not b.weak else F64), b.to(b.sort if not b.weak else F64), b.weak   # the harnesses use python-int semantics)
    if isinstance(b, tuple):
        return a.to(a.sort if not a.weak else F64), from_int(b[1], a.sort if not a.weak else F64), a.weak
    if a.weak and not b.weak:
        return a.to(b.sort), b.e, False
    if b.weak and not a.weak:
        return a.e, b.to(a.sort), False
    s = F64 if (a.sort == F64 or b.sort == F64) else (F32 if (a.sort == F32 or b.sort == F32) else F16)
    return a.to(s), b.to(s), a.weak and b.weak


def _bin(op):
    def f(s, o):
        try:
            a, b, weak = coerce_pair(s, o)
        except TypeError:
            return NotImplemented
        return SFloat(op(a, b), weak)

    def r(s, o):
        try:
            a, b, weak = coerce_pair(o, s)
        except TypeError:
            return NotImplemented
        return SFloat(op(a, b), weak)
    return f, r


SFloat.__add__, SFloat.__radd__ = _bin(lambda a, b: z3.fpAdd(RNE, a, b))
SFloat.__sub__, SFloat.__rsub__ = _bin(lambda a, b: z3.fpSub(RNE, a, b))
SFloat.__mul__, SFloat.__rmul__ = _bin(lambda a, b: z3.fpMul(RNE, a, b))
SFloat.__truediv__, SFloat.__rtruediv__ = _bin(lambda a, b: z3.fpDiv(RNE, a, b))


def _cmp(op):
    def f(s, o):
        if o is None:
            return False
        try:
            a, b, weak = coerce_pair(s, o)
        except TypeError:
            return NotImplemented
        return wrap(z3.simplify(op(a, b)))
    return f


SFloat.__lt__ = _cmp(z3.fpLT)
SFloat.__gt__ = _cmp(z3.fpGT)
SFloat.__le__ = _cmp(z3.fpLEQ)
SFloat.__ge__ = _cmp(z3.fpGEQ)
SFloat.__eq__ = _cmp(z3.fpEQ)
SFloat.__ne__ = _cmp(lambda a, b: z3.Not(z3.fpEQ(a, b)))


def int_truediv(a, b):
    """Python int / int -> float (binary64, correctly rounded for |a|, |b| < 2**53)"""
    return SFloat(z3.fpDiv(RNE, from_int(a, F64), from_int(b, F64)), weak=(SEMANTICS == "numpy"))


def fp_ite(c, a, b):
    ea, eb, weak = coerce_pair(a, b)
    return SFloat(z3.If(c.e if isinstance(c, SBool) else z3.BoolVal(bool(c)), ea, eb), weak)


# ------------------------------------------------------------------ plumbing into values / numpy shim
_enabled = False


def enable(semantics="numpy"):
    """switch the numpy shim and integer division to IEEE mode (per process / per path; call at harness start)"""
    global _enabled, SEMANTICS
    SEMANTICS = semantics
    from .shims import numpy_shim as np
    np._SF = SFloat
    np.IEEE = True
    values.IEEE_DIV = int_truediv
    values.FP_ITE = fp_ite
    values.SFLOAT = SFloat
    _enabled = True


def disable():
    global _enabled
    from .shims import numpy_shim as np
    np.IEEE = False
    values.IEEE_DIV = None
    _enabled = False
