"""symx.loader -- import the repository's real source from /repo with a light AST pass and
environment shims in sys.modules.  Re-reads the files on every run (nothing is cached on disk)."""
import sys
import os
import ast
import types
import hashlib
import importlib.abc
import importlib.util
import builtins

from .core import Unmodelled
from . import containers
from .containers import SymStr

REPO = os.environ.get("SYMX_REPO", "/repo")
LOADED = {}   # module name -> (path, sha1)


class AutoStub(types.ModuleType):
    """module whose unknown attributes raise Unmodelled when *called* (never a silent pass)"""

    def __init__(self, name, models=None):
        super().__init__(name)
        self.__dict__["_models"] = dict(models or {})
        self.__path__ = []

    def __getattr__(self, k):
        if k.startswith("__"):
            raise AttributeError(k)
        m = self.__dict__["_models"]
        if k in m:
            return m[k]
        full = "%s.%s" % (self.__name__, k)
        sub = sys.modules.get(full)
        if sub is not None:
            return sub

        class _Stub:
            def __init__(self, *a, **kw):
                raise Unmodelled(full)
        _Stub.__name__ = k
        _Stub.__qualname__ = k
        return _Stub


def _join(sep, items):
    items = list(items)
    if isinstance(sep, SymStr) or builtins.any(isinstance(i, SymStr) for i in items):
        return SymStr.of(sep).join(items)
    return sep.join(items)


class Instr(ast.NodeTransformer):
    def visit_Dict(self, node):
        self.generic_visit(node)
        if any(k is None for k in node.keys):
            return node
        pairs = ast.List(elts=[ast.Tuple(elts=[k, v], ctx=ast.Load()) for k, v in zip(node.keys, node.values)],
                         ctx=ast.Load())
        return ast.copy_location(ast.Call(func=ast.Name(id="_symx_Dict", ctx=ast.Load()), args=[pairs], keywords=[]), node)

    def visit_DictComp(self, node):
        self.generic_visit(node)
        gen = ast.GeneratorExp(elt=ast.Tuple(elts=[node.key, node.value], ctx=ast.Load()), generators=node.generators)
        return ast.copy_location(ast.Call(func=ast.Name(id="_symx_Dict", ctx=ast.Load()), args=[gen], keywords=[]), node)

    def visit_Set(self, node):
        self.generic_visit(node)
        return ast.copy_location(ast.Call(func=ast.Name(id="_symx_Set", ctx=ast.Load()),
                                          args=[ast.List(elts=node.elts, ctx=ast.Load())], keywords=[]), node)

    def visit_SetComp(self, node):
        self.generic_visit(node)
        gen = ast.GeneratorExp(elt=node.elt, generators=node.generators)
        return ast.copy_location(ast.Call(func=ast.Name(id="_symx_Set", ctx=ast.Load()), args=[gen], keywords=[]), node)

    def visit_Call(self, node):
        self.generic_visit(node)
        f = node.func
        if isinstance(f, ast.Attribute) and f.attr == "join" and len(node.args) == 1 and not node.keywords:
            return ast.copy_location(ast.Call(func=ast.Name(id="_symx_join", ctx=ast.Load()),
                                              args=[f.value, node.args[0]], keywords=[]), node)
        return node


INJECT = dict(containers.BUILTINS)
INJECT["_symx_join"] = _join


class RepoFinder(importlib.abc.MetaPathFinder, importlib.abc.Loader):
    def __init__(self, roots):
        self.roots = roots   # package name -> directory containing it

    def find_spec(self, name, path, target=None):
        top = name.split(".")[0]
        if top not in self.roots:
            return None
        rel = name.replace(".", "/")
        p = os.path.join(self.roots[top], rel)
        if os.path.isdir(p):
            return importlib.util.spec_from_loader(name, self, is_package=True, origin=p + "/__init__.py")
        if os.path.exists(p + ".py"):
            return importlib.util.spec_from_loader(name, self, origin=p + ".py")
        return None

    def create_module(self, spec):
        return None

    def exec_module(self, module):
        path = module.__spec__.origin
        if module.__spec__.submodule_search_locations is not None:
            module.__path__ = [os.path.dirname(path)]
            # package __init__ files are not executed (they import everything)
            return
        src = open(path).read()
        LOADED[module.__name__] = (path, hashlib.sha1(src.encode()).hexdigest())
        tree = ast.parse(src, path)
        tree = ast.fix_missing_locations(Instr().visit(tree))
        module.__dict__.update(INJECT)
        exec(compile(tree, path, "exec"), module.__dict__)


_installed = False


def install(extra_stubs=None):
    """put the shims into sys.modules and register the finder.  Idempotent."""
    global _installed
    if _installed:
        return
    _installed = True
    from .shims import numpy_shim, numba_shim, scipy_shim, sklearn_shim, misc_shim
    sys.modules["numpy"] = numpy_shim
    sys.modules["numba"] = numba_shim
    sys.modules["numba.typed"] = numba_shim.typed
    sys.modules["numba.types"] = numba_shim.types
    sys.modules["numba.np"] = numba_shim.np_
    sys.modules["numba.np.unsafe"] = numba_shim.unsafe
    sys.modules["numba.np.unsafe.ndarray"] = numba_shim.ndarray_mod
    scipy_shim.install(sys.modules)
    sklearn_shim.install(sys.modules)
    misc_shim.install(sys.modules)
    for k, v in (extra_stubs or {}).items():
        sys.modules[k] = v
    roots = {"vectorizers": REPO}
    sys.meta_path.insert(0, RepoFinder(roots))


def load(name):
    """import vectorizers.<name> from the current /repo working tree"""
    install()
    import importlib
    return importlib.import_module(name)


def functions_encoded(mods=None):
    out = []
    for name, (path, sha) in sorted(LOADED.items()):
        out.append({"module": name, "path": path, "sha1": sha})
    return out
