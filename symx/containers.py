"""symx.containers -- dict / set / str models whose key equality is decided by the solver."""
import builtins
from fractions import Fraction
import z3
from . import core
from .values import (SInt, SReal, SBool, Q, is_sym, lift, wrap, sand, sor, snot, to_real, strunc, sround,
                     smin, smax, Poison, NaN)


# --------------------------------------------------------------------------- equality / order
def sym_eq(a, b):
    """python bool; forks when the comparison is symbolic"""
    if a is b:
        return True
    if isinstance(a, (tuple, list)) or isinstance(b, (tuple, list)):
        if not (isinstance(a, (tuple, list)) and isinstance(b, (tuple, list))):
            return False
        if len(a) != len(b):
            return False
        for x, y in zip(a, b):
            if not sym_eq(x, y):
                return False
        return True
    if isinstance(a, SymStr) or isinstance(b, SymStr):
        if isinstance(a, str):
            a = SymStr.of(a)
        if isinstance(b, str):
            b = SymStr.of(b)
        if not (isinstance(a, SymStr) and isinstance(b, SymStr)):
            return False
        if len(a.cp) != len(b.cp):
            return False
        return sym_eq(tuple(a.cp), tuple(b.cp))
    if isinstance(a, str) or isinstance(b, str) or a is None or b is None:
        return (a == b) is True
    r = (a == b)
    if r is NotImplemented:
        return False
    return bool(r)


def sym_eq_expr(a, b):
    """non-forking equality as a value (bool or SBool)"""
    if a is b:
        return True
    if isinstance(a, (tuple, list)) or isinstance(b, (tuple, list)):
        if not (isinstance(a, (tuple, list)) and isinstance(b, (tuple, list))) or len(a) != len(b):
            return False
        return sand(*[sym_eq_expr(x, y) for x, y in zip(a, b)])
    if isinstance(a, SymStr) or isinstance(b, SymStr):
        if isinstance(a, str):
            a = SymStr.of(a)
        if isinstance(b, str):
            b = SymStr.of(b)
        if not (isinstance(a, SymStr) and isinstance(b, SymStr)) or len(a.cp) != len(b.cp):
            return False
        return sand(*[x == y for x, y in zip(a.cp, b.cp)])
    if isinstance(a, str) or isinstance(b, str) or a is None or b is None:
        return (a == b) is True
    r = (a == b)
    return False if r is NotImplemented else r


def sym_lt(a, b):
    if isinstance(a, (tuple, list)) and isinstance(b, (tuple, list)):
        for x, y in zip(a, b):
            if sym_lt(x, y):
                return True
            if sym_lt(y, x):
                return False
        return len(a) < len(b)
    if isinstance(a, SymStr) or isinstance(b, SymStr):
        a = SymStr.of(a) if isinstance(a, str) else a
        b = SymStr.of(b) if isinstance(b, str) else b
        return sym_lt(tuple(a.cp), tuple(b.cp))
    return bool(a < b)


def sym_sorted(it, key=None, reverse=False):
    items = list(it)
    keys = [key(x) for x in items] if key else items
    order = []
    for idx in range(len(items)):
        j = len(order)
        if reverse:
            while j > 0 and sym_lt(keys[order[j - 1]], keys[idx]):
                j -= 1
        else:
            while j > 0 and sym_lt(keys[idx], keys[order[j - 1]]):
                j -= 1
        order.insert(j, idx)
    return [items[i] for i in order]


# --------------------------------------------------------------------------- dict / set
class _DictMeta(type):
    def __instancecheck__(cls, x):
        return type.__instancecheck__(cls, x) or isinstance(x, builtins.dict)


class SymDict(metaclass=_DictMeta):
    """insertion ordered association list; `k in d` compares with solver-decided equality (forks)"""

    def __init__(self, *a, **kw):
        self._k = []
        self._v = []
        self._frozen = False
        if a:
            src = a[0]
            if isinstance(src, SymDict):
                self._k = list(src._k)
                self._v = list(src._v)
            elif isinstance(src, builtins.dict):
                for k, v in src.items():
                    self._k.append(k)
                    self._v.append(v)
            else:
                for k, v in src:
                    self[k] = v
        for k, v in kw.items():
            self[k] = v

    @classmethod
    def fromkeys(cls, keys, v=None):
        d = cls()
        for k in keys:
            d[k] = v
        return d

    def _find(self, k):
        for i, kk in enumerate(self._k):
            if sym_eq(kk, k):
                return i
        return -1

    def _w(self):
        if self._frozen:
            raise core.PurityFault("write to caller-owned dict %s" % (self._frozen,))

    def __contains__(self, k):
        return self._find(k) >= 0

    def __getitem__(self, k):
        i = self._find(k)
        if i < 0:
            raise KeyError(k)
        return self._v[i]

    def __setitem__(self, k, v):
        self._w()
        i = self._find(k)
        if i < 0:
            self._k.append(k)
            self._v.append(v)
        else:
            self._v[i] = v

    def __delitem__(self, k):
        self._w()
        i = self._find(k)
        if i < 0:
            raise KeyError(k)
        del self._k[i]
        del self._v[i]

    def get(self, k, d=None):
        i = self._find(k)
        return d if i < 0 else self._v[i]

    def setdefault(self, k, d=None):
        i = self._find(k)
        if i < 0:
            self[k] = d
            return d
        return self._v[i]

    def pop(self, k, *d):
        self._w()
        i = self._find(k)
        if i < 0:
            if d:
                return d[0]
            raise KeyError(k)
        v = self._v[i]
        del self._k[i]
        del self._v[i]
        return v

    def __len__(self):
        return len(self._k)

    def __iter__(self):
        return iter(list(self._k))

    def keys(self):
        return list(self._k)

    def values(self):
        return list(self._v)

    def items(self):
        return list(zip(self._k, self._v))

    def update(self, o=(), **kw):
        for k, v in (o.items() if hasattr(o, "items") else o):
            self[k] = v
        for k, v in kw.items():
            self[k] = v

    def copy(self):
        return SymDict(self)

    def clear(self):
        self._w()
        self._k = []
        self._v = []

    def __eq__(self, o):
        if not isinstance(o, (SymDict, builtins.dict)):
            return False
        if len(o) != len(self):
            return False
        for k, v in self.items():
            if k not in o or not sym_eq(o[k], v):
                return False
        return True

    def __ne__(self, o):
        return not self.__eq__(o)
    __hash__ = None

    def __repr__(self):
        return "SymDict(%r)" % (self.items(),)

    def __bool__(self):
        return len(self._k) > 0

    def _concretize(self, model):
        from .values import concretize_struct
        return [[concretize_struct(k, model), concretize_struct(v, model)] for k, v in self.items()]


class _SetMeta(type):
    def __instancecheck__(cls, x):
        return type.__instancecheck__(cls, x) or isinstance(x, (builtins.set, builtins.frozenset))


class SymSet(metaclass=_SetMeta):
    def __init__(self, it=()):
        self._k = []
        for x in it:
            self.add(x)

    def add(self, x):
        if x not in self:
            self._k.append(x)

    def discard(self, x):
        for i, k in enumerate(self._k):
            if sym_eq(k, x):
                del self._k[i]
                return

    def remove(self, x):
        n = len(self._k)
        self.discard(x)
        if len(self._k) == n:
            raise KeyError(x)

    def __contains__(self, x):
        for k in self._k:
            if sym_eq(k, x):
                return True
        return False

    ARBITRARY_ORDER = False     # harness switch: the iteration order of a set is unspecified (hash order)

    def __iter__(self):
        ks = list(self._k)
        if SymSet.ARBITRARY_ORDER and len(ks) >= 2:
            # every permutation is a possible iteration order of a Python set (it depends on the hashes, for strings
            # on PYTHONHASHSEED); one order per set object and size, chosen by a case split
            cache = getattr(self, "_order", None)
            if cache is None or cache[0] != len(ks):
                from .values import fresh_int
                rest = list(range(len(ks)))
                perm = []
                while len(rest) > 1:
                    j = int(fresh_int("set_order", 0, len(rest) - 1))
                    perm.append(rest.pop(j))
                perm.append(rest[0])
                cache = (len(ks), perm)
                self._order = cache
            ks = [ks[i] for i in cache[1]]
        return iter(ks)

    def __len__(self):
        return len(self._k)

    def __bool__(self):
        return len(self._k) > 0

    def update(self, *its):
        for it in its:
            for x in it:
                self.add(x)

    def union(self, *its):
        r = SymSet(self._k)
        r.update(*its)
        return r

    def __or__(self, o):
        return self.union(o)

    def difference(self, it):
        o = it if isinstance(it, SymSet) else SymSet(it)
        return SymSet([x for x in self._k if x not in o])

    def __sub__(self, o):
        return self.difference(o)

    def intersection(self, it):
        o = it if isinstance(it, SymSet) else SymSet(it)
        return SymSet([x for x in self._k if x in o])

    def __and__(self, o):
        return self.intersection(o)

    def issubset(self, o):
        o = o if isinstance(o, SymSet) else SymSet(o)
        return builtins.all(x in o for x in self._k)

    def __le__(self, o):
        return self.issubset(o)

    def __eq__(self, o):
        if not isinstance(o, (SymSet, builtins.set, builtins.frozenset)):
            return False
        o = o if isinstance(o, SymSet) else SymSet(o)
        return len(o) == len(self) and builtins.all(x in o for x in self._k)

    def __ne__(self, o):
        return not self.__eq__(o)
    __hash__ = None

    def copy(self):
        return SymSet(self._k)

    def __repr__(self):
        return "SymSet(%r)" % (self._k,)

    def _concretize(self, model):
        from .values import concretize_struct
        return [concretize_struct(k, model) for k in self._k]


# --------------------------------------------------------------------------- strings
class SymStr:
    """string as a tuple of (possibly symbolic) code points"""
    __slots__ = ("cp",)

    def __init__(self, cps):
        self.cp = tuple(cps)

    @staticmethod
    def of(s):
        if isinstance(s, SymStr):
            return s
        return SymStr([ord(c) for c in s])

    def __len__(self):
        return len(self.cp)

    def __iter__(self):
        return iter([SymStr((c,)) for c in self.cp])

    def __getitem__(self, k):
        if isinstance(k, slice):
            def c(v):
                if is_sym(v):
                    return core.EX.choose(v.e, "str slice")
                return v
            return SymStr(self.cp[slice(c(k.start), c(k.stop), c(k.step))])
        if is_sym(k):
            k = core.EX.choose(k.e, "str index")
        return SymStr((self.cp[k],))

    def __add__(self, o):
        if isinstance(o, str):
            o = SymStr.of(o)
        if not isinstance(o, SymStr):
            return NotImplemented
        return SymStr(self.cp + o.cp)

    def __radd__(self, o):
        if isinstance(o, str):
            return SymStr(SymStr.of(o).cp + self.cp)
        return NotImplemented

    def __eq__(self, o):
        if isinstance(o, (str, SymStr)):
            return sym_eq_expr(self, o)
        return False

    def __ne__(self, o):
        return snot(self.__eq__(o))

    def __lt__(self, o):
        return sym_lt(self, o)

    def __gt__(self, o):
        return sym_lt(o, self)
    __hash__ = None

    def __contains__(self, o):
        raise core.Unmodelled("substring test on SymStr")

    def join(self, items):
        out = ()
        first = True
        for it in items:
            if not first:
                out = out + self.cp
            out = out + SymStr.of(it).cp
            first = False
        return SymStr(out)

    def __repr__(self):
        return "SymStr(%s)" % (list(self.cp),)

    def __str__(self):
        return repr(self)

    def _concretize(self, model):
        from .values import concretize_struct
        return concretize_struct(list(self.cp), model)


def sym_ord(c):
    if isinstance(c, SymStr):
        if len(c.cp) != 1:
            raise TypeError("ord() expected a character")
        return c.cp[0]
    return builtins.ord(c)


def sym_chr(i):
    if is_sym(i):
        return SymStr((i,))
    if isinstance(i, SymStr):
        raise TypeError("chr of str")
    if i < 0 or i > 0x10FFFF:
        raise ValueError("chr() arg not in range(0x110000)")
    return SymStr((i,))


def sym_str_join(sep, items):
    return SymStr.of(sep).join(items)


# --------------------------------------------------------------------------- builtins replacements
class _IntMeta(type):
    def __instancecheck__(cls, x):
        return isinstance(x, (builtins.int, SInt))

    def __call__(cls, x=0, *a):
        if isinstance(x, (SInt, SReal, SBool)):
            return strunc(x)
        if isinstance(x, Fraction):
            return builtins.int(x)
        if hasattr(x, "shape") and hasattr(x, "item"):
            return cls(x.item())
        if isinstance(x, (Poison,)):
            x._f()
        return builtins.int(x, *a)

    def __eq__(cls, o):
        return o is cls or o is builtins.int

    def __hash__(cls):
        return hash(builtins.int)


class sym_int(metaclass=_IntMeta):
    pass


class _FloatMeta(type):
    def __instancecheck__(cls, x):
        return isinstance(x, (builtins.float, SReal, Fraction)) and not isinstance(x, builtins.int)

    def __call__(cls, x=0.0):
        if isinstance(x, (SInt, SReal, SBool)):
            return to_real(x)
        if isinstance(x, Fraction):
            return Q(x)
        if hasattr(x, "shape") and hasattr(x, "item"):
            return cls(x.item())
        if isinstance(x, builtins.int):
            return Q(x)
        if isinstance(x, builtins.float):
            return x
        if isinstance(x, (Poison,)):
            x._f()
        if isinstance(x, NaN):
            return x
        return builtins.float(x)

    def __eq__(cls, o):
        return o is cls or o is builtins.float

    def __hash__(cls):
        return hash(builtins.float)


class sym_float(metaclass=_FloatMeta):
    pass


def sym_min(*a, **kw):
    if len(a) == 1:
        a = list(a[0])
    if "key" in kw:
        return builtins.min(a, **kw)
    if not a:
        if "default" in kw:
            return kw["default"]
        raise ValueError("min() arg is an empty sequence")
    r = a[0]
    for x in a[1:]:
        if isinstance(x, (tuple, list, SymStr)) or isinstance(r, (tuple, list, SymStr)):
            r = x if sym_lt(x, r) else r
        else:
            r = smin(r, x)
    return r


def sym_max(*a, **kw):
    if len(a) == 1:
        a = list(a[0])
    if "key" in kw:
        return builtins.max(a, **kw)
    if not a:
        if "default" in kw:
            return kw["default"]
        raise ValueError("max() arg is an empty sequence")
    r = a[0]
    for x in a[1:]:
        if isinstance(x, (tuple, list, SymStr)) or isinstance(r, (tuple, list, SymStr)):
            r = x if sym_lt(r, x) else r
        else:
            r = smax(r, x)
    return r


def sym_round(x, nd=None):
    if isinstance(x, (SReal, SInt)):
        return sround(x)
    if isinstance(x, Fraction):
        return builtins.round(x) if nd is None else Q(builtins.round(x, nd))
    return builtins.round(x) if nd is None else builtins.round(x, nd)


def sym_sum(it, start=0):
    t = start
    for v in it:
        t = t + v
    return t


def sym_str(x=""):
    if isinstance(x, SymStr):
        return x
    return builtins.str(x)


def sym_list_index(lst, v):
    for i, x in enumerate(lst):
        if sym_eq(x, v):
            return i
    raise ValueError("%r is not in list" % (v,))


class SymList(list):
    """list whose .index/.count/in use solver-decided equality (used for token sequences given as lists)"""

    def index(self, v, *a):
        return sym_list_index(self, v)

    def __contains__(self, v):
        for x in self:
            if sym_eq(x, v):
                return True
        return False

    def count(self, v):
        return builtins.sum(1 for x in self if sym_eq(x, v))

    def copy(self):
        return SymList(self)

    def __getitem__(self, k):
        r = list.__getitem__(self, k)
        return SymList(r) if isinstance(k, slice) else r

    def __add__(self, o):
        return SymList(list.__add__(self, o))


class SymLenList(list):
    """list whose reported length is a (possibly symbolic / large) value: only len() of it is ever used"""
    _symx_len = None


def sym_len(x):
    n = getattr(x, "_symx_len", None)
    if n is not None:
        return n
    return builtins.len(x)


BUILTINS = {
    "len": sym_len,
    "dict": SymDict, "set": SymSet, "frozenset": SymSet, "sorted": sym_sorted, "int": sym_int, "float": sym_float,
    "min": sym_min, "max": sym_max, "round": sym_round, "sum": sym_sum, "ord": sym_ord, "chr": sym_chr,
    "_symx_Dict": SymDict, "_symx_Set": SymSet, "_symx_List": SymList,
}
