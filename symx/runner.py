"""symx.runner -- runs the harness cases of one property, replays counterexamples on the real build,
validates path witnesses, writes the evidence file and decides the exit code.

exit 0: property held on everything explored (KNOWN-FINDING lines possible)
exit 1: VIOLATION (confirmed by replay on the real compiled package)
exit 2: harness error / inconclusive (non-reproducing model, unknown, bound hit, unmodelled construct)
"""
import os
import sys
import json
import time
import hashlib
import argparse
import importlib
import traceback
import subprocess
import multiprocessing as mp

VERIF = os.path.dirname(os.path.dirname(os.path.abspath(__file__)))
VENV_PY = os.environ.get("SYMX_VENV_PY", "/venv/bin/python")


class Case:
    def __init__(self, name, fn, params=None, replay=None, witness=None, bounds=None, stubs=(), assumptions=(),
                 max_paths=200000, timeout_s=None, env=None, functions=(), max_witness=None, shards=1, shard_depth=6,
                 fast_ms=None, ack_first=False, memory_only=False, query_timeout_ms=None):
        self.query_timeout_ms = query_timeout_ms      # per-case override of the tier's per-query time-out
        self.memory_only = memory_only
        self.fast_ms = fast_ms
        self.ack_first = ack_first
        self.name = name
        self.fn = fn
        self.params = params or {}
        self.replay = replay          # "module:function" in impl_replay
        self.witness = witness        # "module:function" for path-witness validation
        self.bounds = bounds or {}
        self.stubs = list(stubs)
        self.assumptions = list(assumptions)
        self.max_paths = max_paths
        self.timeout_s = timeout_s
        self.env = env or {}
        self.functions = list(functions)
        self.max_witness = max_witness
        self.shards = shards
        self.shard_depth = shard_depth


def _run_case(args):
    modname, idx, tier, qt, shard = args
    from . import core, loader
    t0 = time.time()
    res = {"case": None, "error": None}
    try:
        mod = importlib.import_module(modname)
        case = mod.cases(tier)[idx]
        res["case"] = case.name
        deadline = t0 + case.timeout_s if case.timeout_s else None
        ex = core.Explorer(max_paths=case.max_paths, query_timeout_ms=(case.query_timeout_ms or qt), want_witness=bool(case.witness), deadline=deadline,
                           shard=shard, fast_ms=case.fast_ms, ack_first=case.ack_first, memory_only=case.memory_only)
        from .shims import numpy_shim, misc_shim

        def wrapped(ex_, **p):
            numpy_shim.MON.reset()
            misc_shim.FS.reset()
            return case.fn(ex_, **p)
        ex.explore(wrapped, **case.params)
        res.update({
            "stats": ex.stats.to_json(),
            "complete": ex.complete,
            "notes": ex.notes[:20],
            "outcomes": [o.to_json() for o in ex.outcomes],
            "samples": ex.samples,
            "witnesses": ex.witnesses,
            "loaded": loader.functions_encoded(),
        })
    except core.Unmodelled as e:
        res["error"] = "Unmodelled: %s\n%s" % (e, traceback.format_exc()[-1500:])
    except BaseException as e:  # noqa
        res["error"] = "%s: %s\n%s" % (type(e).__name__, e, traceback.format_exc()[-3000:])
    res["wall_s"] = round(time.time() - t0, 2)
    if os.environ.get("SYMX_PROGRESS"):
        st = res.get("stats") or {}
        sys.stderr.write("[case done] %s shard=%s wall=%.1fs paths=%s unknown=%s fallbacks=%s %s\n" % (
            res.get("case"), shard, res["wall_s"], st.get("paths"), st.get("unknown"), st.get("fallbacks"), (res.get("error") or "")[:200]))
    return res


def _driver(requests, env):
    """run replay / witness requests against the real package in one /venv subprocess"""
    if not requests:
        return []
    os.makedirs(os.path.join(VERIF, "replays"), exist_ok=True)
    import threading
    path = os.path.join(VERIF, "replays", ".batch-%d-%d-%d.json" % (os.getpid(), threading.get_ident() % 100000, int(time.time() * 1000000) % 10000000))
    with open(path, "w") as f:
        json.dump(requests, f)
    e = dict(os.environ)
    e.update(env)
    e["PYTHONPATH"] = os.environ.get("SYMX_REPO", "/repo") + os.pathsep + VERIF
    e.setdefault("NUMBA_NUM_THREADS", "4")
    try:
        p = subprocess.run([VENV_PY, os.path.join(VERIF, "impl_replay", "driver.py"), path], env=e, capture_output=True,
                           text=True, timeout=3000)
    finally:
        pass
    out = path + ".out"
    try:
        if os.path.exists(out):
            r = json.load(open(out))
        else:
            # the process died (e.g. heap corruption abort): every request counts as crashed
            r = [{"crashed": True, "returncode": p.returncode, "stderr": p.stderr[-2000:]} for _ in requests]
    finally:
        for q in (path, out):
            if os.path.exists(q):
                os.remove(q)
    return r


def _key(o):
    return json.dumps([o["name"], o.get("known")], sort_keys=True)


def main(argv=None):
    ap = argparse.ArgumentParser()
    ap.add_argument("property")
    ap.add_argument("--tier", default=os.environ.get("VERIF_TIER", "quick"), choices=["quick", "thorough"])
    ap.add_argument("--replay", default=None)
    ap.add_argument("--jobs", type=int, default=int(os.environ.get("SYMX_JOBS", "16")))
    ap.add_argument("--only", default=None, help="substring filter on case names (debugging; evidence marked partial)")
    ap.add_argument("--no-evidence", action="store_true")
    a = ap.parse_args(argv)
    pid = a.property
    t0 = time.time()
    sys.path.insert(0, VERIF)
    from harness import REGISTRY
    if pid not in REGISTRY:
        print("no harness for", pid)
        return 2
    spec = REGISTRY[pid]
    if a.replay:
        req = json.load(open(a.replay))
        r = _driver([req["request"]], req.get("env", {}))[0]
        print(json.dumps(r, indent=1))
        if r.get("violation") or r.get("crashed"):
            print("VIOLATION property=%s replay=%s" % (pid, a.replay))
            return 1
        return 0
    qt = 30000 if a.tier == "quick" else 300000
    jobs = []
    meta = {}
    # the thorough grids of the class-level harnesses are products of many parameters; a run is capped at
    # SYMX_THOROUGH_CAP worker jobs by a deterministic stride over the case list (kept / total is written to the evidence;
    # set SYMX_THOROUGH_CAP=0 for the full grid)
    cap = int(os.environ.get("SYMX_THOROUGH_CAP", "700")) if a.tier == "thorough" else 0
    all_cases = []
    for modname in spec["modules"]:
        mod = importlib.import_module(modname)
        for i, c in enumerate(mod.cases(a.tier)):
            if a.only and a.only not in c.name:
                continue
            all_cases.append((modname, i, c))
    n_jobs_full = sum(c.shards for _, _, c in all_cases)
    stride = 1
    if cap and n_jobs_full > cap:
        stride = -(-n_jobs_full // cap)
    subsample = {"cases_total": len(all_cases), "jobs_total": n_jobs_full, "stride": stride}
    for pos, (modname, i, c) in enumerate(all_cases):
            if stride > 1 and pos % stride != 0:
                continue
            if c.shards > 1:
                for k in range(c.shards):
                    jobs.append((modname, i, a.tier, qt, (k, c.shards, c.shard_depth)))
            else:
                jobs.append((modname, i, a.tier, qt, None))
            meta[(modname, i)] = c
    ctx = mp.get_context("fork")
    with ctx.Pool(min(a.jobs, max(1, len(jobs)))) as pool:
        results = pool.map(_run_case, jobs, chunksize=1)

    known = json.load(open(os.path.join(VERIF, "known_findings.json")))
    known_ids = {f["id"]: f for f in known.get("findings", []) if f["property"] == pid}

    total = {"paths": 0, "ok": 0, "pruned": 0, "bound": 0, "unknown": 0, "decisions": 0, "queries": 0,
             "solver_time": 0.0, "concretizations": 0, "checks": 0, "reach": 0, "bounds_checks": 0, "checks_skipped": 0,
             "fallbacks": 0}
    errors = []
    inconclusive = []
    per_case = []
    samples = []
    loaded = {}
    replay_reqs = {}   # env key -> list of (request, outcome, case)
    witness_reqs = {}
    stubs, assumptions, bounds = set(), set(), {}
    # merge the shards of a case
    merged = {}
    order = []
    for job, r in zip(jobs, results):
        k = (job[0], job[1])
        if k not in merged:
            merged[k] = r
            order.append((job, k))
            continue
        m = merged[k]
        if r.get("error"):
            m["error"] = (m.get("error") or "") + r["error"]
            continue
        if m.get("error"):
            continue
        for sk in m["stats"]:
            m["stats"][sk] += r["stats"].get(sk, 0)
        m["complete"] = m["complete"] and r["complete"]
        m["notes"] += r["notes"]
        m["outcomes"] += r["outcomes"]
        m["samples"] += r["samples"]
        m["witnesses"] += r["witnesses"]
        m["wall_s"] = max(m["wall_s"], r["wall_s"])
        m["loaded"] += r["loaded"]
    for job, k in order:
        r = merged[k]
        c = meta[(job[0], job[1])]
        stubs.update(c.stubs)
        assumptions.update(c.assumptions)
        bounds[c.name] = c.bounds
        if r.get("error"):
            errors.append("%s: %s" % (c.name, r["error"]))
            per_case.append({"case": c.name, "error": r["error"][:300]})
            continue
        for k in total:
            total[k] += r["stats"].get(k, 0)
        if not r["complete"]:
            inconclusive.append("%s: %s" % (c.name, "; ".join(r["notes"][:3])))
        if r["stats"]["ok"] == 0 and not r["outcomes"]:
            errors.append("%s: vacuous (no feasible path reached the end of the harness)" % c.name)
        for l in r["loaded"]:
            loaded[l["module"]] = l
        per_case.append({"case": c.name, "paths": r["stats"]["paths"], "ok": r["stats"]["ok"],
                         "pruned": r["stats"]["pruned"], "queries": r["stats"]["queries"],
                         "checks": r["stats"]["checks"], "wall_s": r["wall_s"],
                         "violations": len(r["outcomes"]), "complete": r["complete"]})
        for s in r["samples"][:1]:
            if len(samples) < 8:
                samples.append({"case": c.name, "params": _js(c.params), "path_witness_inputs": s})
        # group outcomes: replay up to 2 per (name, known) group
        seen = {}
        for o in r["outcomes"]:
            k = _key(o)
            seen.setdefault(k, [])
            if len(seen[k]) < 2:
                seen[k].append(o)
        ekey = json.dumps(c.env, sort_keys=True)
        for k, os_ in seen.items():
            for o in os_:
                if not c.replay:
                    errors.append("%s: violation without replay driver: %s" % (c.name, o["name"]))
                    continue
                req = {"kind": "replay", "target": c.replay, "case": c.name, "params": _js(c.params), "inputs": o["inputs"],
                       "assertion": o["name"]}
                replay_reqs.setdefault(ekey, []).append((req, o, c))
        if c.witness and r["witnesses"]:
            ws = r["witnesses"]
            nmax = c.max_witness or (40 if a.tier == "quick" else 200)
            if a.tier != "quick" and c.max_witness:
                nmax = c.max_witness * 4
            step = max(1, -(-len(ws) // nmax))
            for w in ws[::step]:
                req = {"kind": "witness", "target": c.witness, "case": c.name, "params": _js(c.params), "inputs": w["inputs"],
                       "expected": w["outputs"]}
                witness_reqs.setdefault(ekey, []).append((req, w, c))

    violations = []
    known_hits = {}
    n_witness_ok = 0
    # replays + witnesses share subprocesses per env
    ekeys = sorted(set(list(replay_reqs) + list(witness_reqs)))

    def _run_env(ekey):
        env = json.loads(ekey)
        reqs = [x[0] for x in replay_reqs.get(ekey, [])] + [x[0] for x in witness_reqs.get(ekey, [])]
        outs = _driver(reqs, env)
        # a crash kills the whole batch: rerun one process per request to attribute it
        if any(o.get("crashed") for o in outs) and len(reqs) > 1:
            outs = []
            for q in reqs:
                outs.extend(_driver([q], env))
        return outs
    from concurrent.futures import ThreadPoolExecutor
    with ThreadPoolExecutor(max_workers=8) as tp:
        all_outs = dict(zip(ekeys, tp.map(_run_env, ekeys)))
    for ekey in ekeys:
        env = json.loads(ekey)
        rr = replay_reqs.get(ekey, [])
        ww = witness_reqs.get(ekey, [])
        outs = all_outs[ekey]
        for (req, o, c), out in zip(rr, outs[:len(rr)]):
            confirmed = bool(out.get("violation")) or bool(out.get("crashed"))
            env_used = env
            if not confirmed and o["kind"] == "fault" and o["name"].split(":")[0] in ("UnboundLocalError", "NameError", "OOBFault", "IndexError", "PoisonFault"):
                # a compiled kernel reads garbage silently where Python semantics raise: confirm the memory fault in the
                # checked modes the package supports (bounds checking; interpreter fallback for never-assigned locals)
                for extra in ({"NUMBA_BOUNDSCHECK": "1"}, {"NUMBA_DISABLE_JIT": "1"}):
                    if all(env.get(k) == v for k, v in extra.items()):
                        continue
                    out2 = _driver([req], dict(env, **extra))[0]
                    if out2.get("violation") or out2.get("crashed"):
                        out = dict(out2, confirmed_under=extra)
                        env_used = dict(env, **extra)
                        confirmed = True
                        break
            rec = {"property": pid, "case": c.name, "assertion": o["name"], "kind": o["kind"], "inputs": o["inputs"],
                   "real_build": out, "known": o.get("known")}
            if not confirmed:
                errors.append("%s: counterexample for '%s' does not reproduce on the real build (encoding/shim error?): inputs=%s real=%s"
                              % (c.name, o["name"], json.dumps(o["inputs"])[:400], json.dumps(out)[:300]))
                continue
            if o.get("known") and o["known"] in known_ids:
                known_hits.setdefault(o["known"], rec)
            else:
                h = hashlib.sha1(json.dumps([c.name, o["name"], o["inputs"]], sort_keys=True).encode()).hexdigest()[:10]
                d = os.path.join(VERIF, "replays", pid)
                os.makedirs(d, exist_ok=True)
                path = os.path.join(d, "%s-%s.json" % (c.name.replace("/", "_"), h))
                with open(path, "w") as f:
                    json.dump({"request": req, "env": env_used, "record": rec}, f, indent=1)
                violations.append((path, rec))
        for (req, w, c), out in zip(ww, outs[len(rr):]):
            if out.get("match"):
                n_witness_ok += 1
            else:
                # the real build does not return what the Python-semantics execution of the same source returns on this
                # path.  If the property's own concrete oracle (the replay function) also rejects the real result -- e.g.
                # the compiled code raises where the source, run as Python, does not -- this is a violation of the
                # property by the real code; otherwise the environment model is wrong (harness error).
                confirmed = None
                if c.replay:
                    rq = {"kind": "replay", "target": c.replay, "case": c.name, "params": _js(c.params), "inputs": w["inputs"],
                          "assertion": "path witness: the real build differs from the Python-semantics result"}
                    rout = _driver([rq], env)[0]
                    if rout.get("violation") or rout.get("crashed"):
                        confirmed = (rq, rout)
                if confirmed:
                    rq, rout = confirmed
                    rec = {"property": pid, "case": c.name, "assertion": rq["assertion"], "kind": "witness", "inputs": w["inputs"],
                           "real_build": rout, "known": None}
                    h = hashlib.sha1(json.dumps([c.name, "witness", w["inputs"]], sort_keys=True).encode()).hexdigest()[:10]
                    d = os.path.join(VERIF, "replays", pid)
                    os.makedirs(d, exist_ok=True)
                    path = os.path.join(d, "%s-%s.json" % (c.name.replace("/", "_"), h))
                    with open(path, "w") as f:
                        json.dump({"request": rq, "env": env, "record": rec}, f, indent=1)
                    if len([v for v in violations if v[1]["case"] == c.name and v[1]["kind"] == "witness"]) < 2:
                        violations.append((path, rec))
                else:
                    errors.append("%s: path witness disagrees with the real build: inputs=%s expected=%s got=%s"
                                  % (c.name, json.dumps(w["inputs"])[:300], json.dumps(w["outputs"])[:300], json.dumps(out)[:300]))

    wall = round(time.time() - t0, 2)
    status = "held"
    if violations:
        status = "violated"
    elif errors or inconclusive:
        status = "inconclusive"
    ev = {
        "property_id": pid,
        "tier": a.tier,
        "seed": int(os.environ.get("VERIF_SEED", "0") or 0),
        "level": "model_checking",
        "coverage": {
            "states": max(total["ok"], 0),
            "transitions": max(total["decisions"] + total["concretizations"], 0),
            "traces_validated_against_impl": n_witness_ok,
            "samples": samples or [{"note": "no feasible path"}],
            "exhaustive": False,
            "paths_explored": total["paths"],
            "paths_by_outcome": {"ok": total["ok"], "pruned": total["pruned"], "bound": total["bound"]},
            "assertions_checked": total["checks"],
            "index_bounds_assertions": total["bounds_checks"],
            "functional_assertions_skipped_memory_only": total["checks_skipped"],
            "ackermannized_fallback_queries": total["fallbacks"],
            "queries": total["queries"],
            "solver_time_s": round(total["solver_time"], 2),
            "unknown_queries": total["unknown"],
            "concretizations": total["concretizations"],
            "functions_encoded": sorted(set(f for job in jobs for f in meta[(job[0], job[1])].functions)),
            "source_modules": sorted(loaded.values(), key=lambda l: l["module"]),
            "bounds": bounds,
            "stubs": sorted(stubs),
            "per_case": per_case,
            "status": status,
            "known_findings_hit": sorted(known_hits),
            "uncovered": spec.get("uncovered", []),
            "case_grid": dict(subsample, cases_run=len(meta)),
            "solver": "z3 %s (python API, tooling venv)" % _z3v(),
        },
        "assumptions": sorted(assumptions) + spec.get("assumptions", []),
        "wall_s": wall,
        "violations": len(violations),
    }
    if a.only:
        ev["coverage"]["partial_run_filter"] = a.only
    if not a.no_evidence:
        os.makedirs(os.path.join(VERIF, "evidence"), exist_ok=True)
        with open(os.path.join(VERIF, "evidence", pid + ".json"), "w") as f:
            json.dump(ev, f, indent=1)
    print("[%s/%s] cases=%d paths=%d ok=%d checks=%d bounds_checks=%d queries=%d solver=%.1fs witnesses_validated=%d wall=%.1fs status=%s" % (
        pid, a.tier, len(jobs), total["paths"], total["ok"], total["checks"], total["bounds_checks"], total["queries"], total["solver_time"],
        n_witness_ok, wall, status))
    for fid, rec in sorted(known_hits.items()):
        print("KNOWN-FINDING: property=%s %s [%s]" % (pid, known_ids[fid]["text"], fid))
    for path, rec in violations:
        print("VIOLATION property=%s replay=%s" % (pid, path))
        print("  case=%s assertion=%s inputs=%s" % (rec["case"], rec["assertion"], json.dumps(rec["inputs"])[:500]))
    if violations:
        return 1
    if errors or inconclusive:
        for e in errors:
            print("HARNESS-ERROR:", e[:1500])
        for e in inconclusive:
            print("INCONCLUSIVE:", e)
        return 2
    return 0


def _z3v():
    try:
        import z3
        return z3.get_version_string()
    except Exception:
        return "?"


def _js(p):
    out = {}
    for k, v in p.items():
        try:
            json.dumps(v)
            out[k] = v
        except TypeError:
            out[k] = repr(v)
    return out


if __name__ == "__main__":
    sys.exit(main())
