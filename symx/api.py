"""symx.api -- helpers for writing harnesses."""
import z3
from . import core
from .core import PathAbort, SymFault, OOBFault, PoisonFault, Unmodelled
from .values import (SInt, SReal, SBool, Q, Poison, NaN, fresh_int, fresh_real, fresh_bool, sand, sor, snot,
                     simplies, ite, is_sym, to_real, lift, wrap, ssqrt, concretize_struct)
from .shims import numpy_shim as np


def ex():
    return core.EX


def assume(c):
    core.EX.assume(c)


def check(name, cond, known=None, detail=None):
    return core.EX.check(name, cond, known=known, detail=detail)


def register(name, value):
    core.EX.register_input(name, value)
    return value


def int_array(name, n, lo=None, hi=None, dtype=None, increasing=False):
    vals = [fresh_int("%s%d" % (name, i), lo, hi) for i in range(n)]
    if increasing:
        for a, b in zip(vals, vals[1:]):
            core.EX.add((a < b).e)
    return np.array(vals, dtype=dtype or np.int64) if n else np.zeros(0, dtype or np.int64)


def real_array(name, n, lo=None, hi=None, dtype=None):
    vals = [fresh_real("%s%d" % (name, i), lo, hi) for i in range(n)]
    return np.array(vals, dtype=dtype or np.float64) if n else np.zeros(0, dtype or np.float64)


def has_poison(x):
    if isinstance(x, (Poison,)):
        return True
    if isinstance(x, np.ndarray):
        return any(isinstance(v, Poison) for v in x._flat())
    if isinstance(x, (list, tuple)):
        return any(has_poison(v) for v in x)
    return False


def has_nan(x):
    if isinstance(x, (NaN,)):
        return True
    if isinstance(x, float):
        return x != x
    if isinstance(x, np.ndarray):
        return any(has_nan(v) for v in x._flat())
    if isinstance(x, (list, tuple)):
        return any(has_nan(v) for v in x)
    return False


def call(fn, *a, expected=(), known_faults=None, **kw):
    """call code under test; exceptions not in `expected` are recorded as faults (path ends)."""
    try:
        return fn(*a, **kw)
    except expected:
        raise
    except (core.PathAbort, core.BoundHit, core.Unmodelled):
        raise
    except Exception as e:
        core.EX.fault(e, known=known_faults)
        raise core.PathAbort()
