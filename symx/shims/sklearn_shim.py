"""sklearn model: only what the repository uses.  Numerical third-party routines are contract stubs
(harnesses may replace them per module)."""
import builtins
from . import numpy_shim as np
from . import scipy_shim as sp
from .numpy_shim import ndarray
from ..core import Unmodelled
from ..values import Q, to_real, ssqrt, is_sym, NaN


class NotFittedError(ValueError, AttributeError):
    pass


class BaseEstimator:
    def get_params(self, deep=True):
        import inspect
        sig = inspect.signature(type(self).__init__)
        return {k: getattr(self, k, None) for k in sig.parameters if k != "self"}

    def set_params(self, **kw):
        for k, v in kw.items():
            setattr(self, k, v)
        return self


class TransformerMixin:
    def fit_transform(self, X, y=None, **fit_params):
        if y is None:
            return self.fit(X, **fit_params).transform(X)
        return self.fit(X, y, **fit_params).transform(X)


def check_is_fitted(est, attributes=None, msg=None, all_or_any=builtins.all):
    if attributes is None:
        fitted = [k for k in vars(est) if k.endswith("_") and not k.startswith("__")]
        if not fitted:
            raise NotFittedError("This %s instance is not fitted yet." % type(est).__name__)
        return
    if isinstance(attributes, str):
        attributes = [attributes]
    if not all_or_any([hasattr(est, a) for a in attributes]):
        raise NotFittedError("This %s instance is not fitted yet." % type(est).__name__)


def check_array(a, accept_sparse=False, dtype="numeric", ensure_2d=True, **kw):
    if isinstance(a, sp.spmatrix):
        return a
    a = np._A(a)
    if ensure_2d and a.ndim == 1:
        raise ValueError("Expected 2D array, got 1D array instead")
    return a


class RNG:
    """random state carrying its lineage (what it was derived from) for the determinism monitor"""

    def __init__(self, lineage):
        self.lineage = lineage
        self.draws = 0

    def randint(self, lo, hi=None, size=None):
        from ..values import fresh_int
        if hi is None:
            lo, hi = 0, lo
        if size is not None:
            raise Unmodelled("RandomState.randint(size=)")
        self.draws += 1
        return fresh_int("rand", lo, hi - 1)

    def __getattr__(self, k):
        def f(*a, **kw):
            raise Unmodelled("RandomState.%s" % k)
        return f


def check_random_state(seed):
    if isinstance(seed, RNG):
        return seed
    return RNG(("check_random_state", seed))


def normalize(X, norm="l2", axis=1, copy=True, return_norm=False):
    if norm not in ("l1", "l2", "max"):
        raise ValueError("'%s' is not a supported norm" % norm)

    def nrm(vals):
        if norm == "l1":
            return np._sumlist([builtins.abs(v) for v in vals], np.float64)
        if norm == "l2":
            return ssqrt(np._sumlist([v * v for v in vals], np.float64))
        return np._maxlist([builtins.abs(v) for v in vals])

    if isinstance(X, sp.spmatrix):
        if norm == "max":
            raise Unmodelled("normalize max sparse")
        Xc = X.tocsr() if axis == 1 else X.tocsc()
        if Xc is X and copy:
            Xc = X.copy()
        elif not copy and Xc is X:
            pass
        dt = Xc.dtype if Xc.dtype.kind == "f" else np.float64
        ptr = sp._carr(Xc.indptr)
        dat = Xc.data._flat()
        out = []
        for i in range(len(ptr) - 1):
            seg = dat[ptr[i]:ptr[i + 1]]
            n = nrm(seg) if seg else 0
            z = bool(n == 0)   # sklearn leaves all-zero rows alone (norm 0 -> divide by 1)
            for v in seg:
                out.append(to_real(v) if z else to_real(v) / n)
        Xc.data = ndarray._from_flat(out, (len(out),), dt)
        return Xc.tocsr() if axis == 0 else Xc
    a = np._A(X)
    if a.ndim != 2:
        raise ValueError("Expected 2D array")
    dt = a.dtype if a.dtype.kind == "f" else np.float64
    r = np.zeros(a.shape, dt)
    if axis == 1:
        for i in range(a.shape[0]):
            row = a[i]._flat()
            n = nrm(row)
            z = bool(n == 0)
            for j, v in enumerate(row):
                r[i, j] = to_real(v) if z else to_real(v) / n
    else:
        for j in range(a.shape[1]):
            col = a[:, j]._flat()
            n = nrm(col)
            z = bool(n == 0)
            for i, v in enumerate(col):
                r[i, j] = to_real(v) if z else to_real(v) / n
    return r


class LabelBinarizer:
    def __init__(self, neg_label=0, pos_label=1, sparse_output=False):
        self.sparse_output = sparse_output

    def fit(self, y):
        from ..containers import sym_sorted, SymSet
        vals = list(y._flat()) if isinstance(y, ndarray) else list(y)
        self.classes_ = np.array(sym_sorted(list(SymSet(vals))))
        return self

    def transform(self, y):
        from ..containers import sym_eq
        vals = list(y._flat()) if isinstance(y, ndarray) else list(y)
        cls = self.classes_._flat()
        n = len(cls)
        if n == 1:
            M = np.zeros((len(vals), 1), np.int64)
        elif n == 2:
            M = np.zeros((len(vals), 1), np.int64)
            for i, v in enumerate(vals):
                if sym_eq(v, cls[1]):
                    M[i, 0] = 1
        else:
            M = np.zeros((len(vals), n), np.int64)
            for i, v in enumerate(vals):
                for j, c in enumerate(cls):
                    if sym_eq(v, c):
                        M[i, j] = 1
                        break
        if self.sparse_output:
            return sp.csr_matrix(M)
        return M

    def fit_transform(self, y):
        return self.fit(y).transform(y)


def svd_flip(u, v, u_based_decision=True):
    return u, v


def randomized_svd(M, n_components, **kw):
    raise Unmodelled("randomized_svd (replace by a contract stub in the harness)")


def install(mods):
    from ..loader import AutoStub
    sk = AutoStub("sklearn")
    base = AutoStub("sklearn.base", {"BaseEstimator": BaseEstimator, "TransformerMixin": TransformerMixin})
    utils = AutoStub("sklearn.utils", {"check_array": check_array, "check_random_state": check_random_state})
    validation = AutoStub("sklearn.utils.validation", {"check_is_fitted": check_is_fitted, "check_array": check_array,
                                                       "check_random_state": check_random_state})
    extmath = AutoStub("sklearn.utils.extmath", {"svd_flip": svd_flip, "randomized_svd": randomized_svd})
    prep = AutoStub("sklearn.preprocessing", {"normalize": normalize, "LabelBinarizer": LabelBinarizer})
    exc = AutoStub("sklearn.exceptions", {"NotFittedError": NotFittedError})
    for m in (sk, base, utils, validation, extmath, prep, exc,
              AutoStub("sklearn.mixture"), AutoStub("sklearn.neighbors"), AutoStub("sklearn.decomposition"),
              AutoStub("sklearn.metrics"), AutoStub("sklearn.cluster")):
        mods[m.__name__] = m
    sk._models.update(base=base, utils=utils, preprocessing=prep, exceptions=exc)
    utils._models.update(validation=validation, extmath=extmath)
