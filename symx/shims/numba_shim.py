"""numba model: decorators return the undecorated function (Python semantics + array model checks)."""
import types as _types
from . import numpy_shim as np
from .numpy_shim import MON
from ..containers import SymDict, SymList


class TypingError(Exception):
    pass


def _decorator(*a, **kw):
    if len(a) == 1 and callable(a[0]) and not kw:
        f = a[0]
        f._symx_jitted = True
        return f

    def deco(f):
        f._symx_jitted = True
        f._symx_locals = kw.get("locals")
        return f
    return deco


njit = jit = vectorize = guvectorize = _decorator
jitted = _decorator


class prange:
    """parallel range: iterations run sequentially under the race monitor (a cell written by one iteration
    and read or written by another is a fault)"""

    def __init__(self, *a):
        self.r = range(*[int(x) for x in a])

    def __iter__(self):
        outer = MON.race is not None
        if outer:
            for i in self.r:
                yield i
            return
        MON.race = {}
        try:
            for i in self.r:
                MON.race_iter = i
                yield i
        finally:
            MON.race = None
            MON.race_iter = None


class _TList(SymList):
    @classmethod
    def empty_list(cls, *a, **k):
        return cls()


class _TDict(SymDict):
    @classmethod
    def empty(cls, *a, **k):
        return cls()


typed = _types.ModuleType("numba.typed")
typed.List = _TList
typed.Dict = _TDict


class _T:
    def __init__(self, name):
        self.name = name

    def __getitem__(self, k):
        return self

    def __call__(self, *a):
        if len(a) == 1 and not isinstance(a[0], _T):
            return a[0]
        return self


types = _types.ModuleType("numba.types")
for _n in ("int64", "int32", "float64", "float32", "unicode_type", "boolean", "uint32", "uint8", "uint64",
           "ListType", "DictType", "UniTuple", "Tuple", "Array", "void", "intp", "int8", "int16", "uint16"):
    setattr(types, _n, _T(_n))
types.unicode_type = _T("unicode_type")

float64 = np.float64
float32 = np.float32
int64 = np.int64
int32 = np.int32
uint32 = np.uint32
uint64 = np.uint64
uint8 = np.uint8
boolean = np.bool_
int8 = np.int8
int16 = np.int16
uint16 = np.uint16


def set_num_threads(n):
    pass


def get_num_threads():
    return 1


config = _types.SimpleNamespace(DISABLE_JIT=True)

np_ = _types.ModuleType("numba.np")
unsafe = _types.ModuleType("numba.np.unsafe")
ndarray_mod = _types.ModuleType("numba.np.unsafe.ndarray")


def to_fixed_tuple(arr, n):
    return tuple(arr[i] for i in range(n))


ndarray_mod.to_fixed_tuple = to_fixed_tuple
unsafe.ndarray = ndarray_mod
np_.unsafe = unsafe
