"""pandas / dask / pynndescent / os-tempfile models (minimal; grow per harness)."""
import sys
import types
import builtins
from ..core import Unmodelled, SymFault
from . import numpy_shim as np


# ---------------------------------------------------------------- dask
class _Delayed:
    def __init__(self, fn, args=(), kw=None, is_call=False):
        self.fn, self.args, self.kw, self.is_call = fn, args, kw or {}, is_call

    def __call__(self, *a, **kw):
        return _Delayed(self.fn, a, kw, True)

    def compute(self, **kw):
        return _compute(self)


TASK_HOOK = []   # callables (fn, args, kw) -> context manager, used by the non-interference monitor


def _compute(x):
    if isinstance(x, _Delayed):
        if not x.is_call:
            return x.fn
        args = [_compute(a) for a in x.args]
        kw = {k: _compute(v) for k, v in x.kw.items()}
        if TASK_HOOK:
            return TASK_HOOK[-1](x.fn, args, kw)
        return x.fn(*args, **kw)
    if isinstance(x, list):
        return [_compute(a) for a in x]
    if isinstance(x, tuple):
        return tuple(_compute(a) for a in x)
    return x


def delayed(fn, **kw):
    return _Delayed(fn)


# ---------------------------------------------------------------- file system model
class FSModel:
    def __init__(self):
        self.reset()

    def reset(self):
        self.live = set()
        self.counter = 0
        self.log = []

    def mkdtemp(self, *a, **k):
        self.counter += 1
        p = "/symtmp/d%d" % self.counter
        self.live.add(p)
        self.log.append(("mkdtemp", p))
        return p

    def open_memmap(self, filename, mode):
        if "w" in mode:
            self.live.add(filename)
            self.log.append(("create", filename))
        elif filename not in self.live:
            raise FileNotFoundError(filename)

    def remove(self, p):
        if p not in self.live:
            raise FileNotFoundError(p)
        self.live.discard(p)
        self.log.append(("remove", p))

    def rmdir(self, p):
        if p not in self.live:
            raise FileNotFoundError(p)
        if builtins.any(q != p and q.startswith(p + "/") for q in self.live):
            raise OSError("Directory not empty: %s" % p)
        self.live.discard(p)
        self.log.append(("rmdir", p))

    def rmtree(self, p, ignore_errors=False):
        for q in list(self.live):
            if q == p or q.startswith(p + "/"):
                self.live.discard(q)
        self.log.append(("rmtree", p))


FS = FSModel()


def install(mods):
    from ..loader import AutoStub
    dask = AutoStub("dask", {"delayed": delayed, "compute": lambda *a, **k: tuple(_compute(x) for x in a)})
    mods["dask"] = dask
    mods["pandas"] = AutoStub("pandas", _pd_models())
    mods["pandas.api"] = AutoStub("pandas.api")
    mods["pandas.api.types"] = AutoStub("pandas.api.types", {"is_datetime64_any_dtype": lambda x: False})
    mods["pynndescent"] = AutoStub("pynndescent")
    mods["pynndescent.optimal_transport"] = AutoStub("pynndescent.optimal_transport")
    mods["pynndescent.distances"] = AutoStub("pynndescent.distances", {"named_distances": {}})
    mods["pomegranate"] = AutoStub("pomegranate")
    mods["iisignature"] = AutoStub("iisignature")


# ---------------------------------------------------------------- pandas (intervals, cut)
def _pd_models():
    from ..values import Q, to_real, sand, ite, is_sym, SReal

    class Interval:
        def __init__(self, left, right, closed="right"):
            if closed != "right":
                raise Unmodelled("pd.Interval closed=%r" % (closed,))
            self.left, self.right, self.closed = left, right, closed

        def __repr__(self):
            return "Interval(%r, %r]" % (self.left, self.right)

        def contains(self, v):
            return sand(self.left < v, v <= self.right)

    class IntervalIndex:
        def __init__(self, data, closed="right"):
            self._iv = list(data)
            for i in self._iv:
                if not isinstance(i, Interval):
                    raise Unmodelled("IntervalIndex from non-intervals")

        @classmethod
        def from_breaks(cls, breaks, closed="right"):
            b = list(np._A(breaks)._flat()) if not isinstance(breaks, (list, tuple)) else list(breaks)
            return cls([Interval(x, y) for x, y in zip(b, b[1:])])

        def to_list(self):
            return list(self._iv)

        tolist = to_list

        def __len__(self):
            return len(self._iv)

        def __iter__(self):
            return iter(self._iv)

        def __getitem__(self, i):
            return self._iv[i]

    def interval_range(start=None, end=None, periods=None, freq=None, closed="right"):
        if start is None or end is None or periods is None or freq is not None:
            raise Unmodelled("interval_range signature")
        n = int(periods)
        s, e = to_real(start), to_real(end)
        br = [s + (e - s) * Q(i, n) for i in range(n)] + [e]
        return IntervalIndex.from_breaks(br)

    class _Counts:
        def __init__(self, vals):
            self.values = np.array(vals, dtype=np.int64) if vals else np.zeros(0, np.int64)

    class _Cat:
        def __init__(self, vals, bins):
            self._v, self._b = vals, bins

        @property
        def codes(self):
            """index of the (unique, bins do not overlap) interval containing each value, -1 when there is none"""
            out = []
            for v in self._v:
                c = -1
                for k, iv in reversed(list(enumerate(self._b))):
                    inside = iv.contains(v)
                    c = ite(inside, k, c) if is_sym(inside) else (k if inside else c)
                out.append(c)
            return np.array(out, dtype=np.int8) if out else np.zeros(0, np.int8)

        def value_counts(self):
            out = []
            for iv in self._b:
                c = 0
                for v in self._v:
                    c = c + ite(iv.contains(v), 1, 0) if is_sym(iv.contains(v)) else c + (1 if iv.contains(v) else 0)
                out.append(c)
            return _Counts(out)

    def cut(x, bins, **kw):
        if not isinstance(bins, IntervalIndex) or kw:
            raise Unmodelled("pd.cut with non-IntervalIndex bins")
        vals = list(np._A(x)._flat()) if not isinstance(x, (list, tuple)) else list(x)
        ivs = bins.to_list()
        # pandas refuses overlapping interval bins: two right-closed intervals overlap iff they share a point
        for a in range(len(ivs)):
            for b in range(a + 1, len(ivs)):
                lo = ivs[a].left if bool(ivs[a].left >= ivs[b].left) else ivs[b].left
                hi = ivs[a].right if bool(ivs[a].right <= ivs[b].right) else ivs[b].right
                if bool(lo < hi):
                    raise ValueError("Overlapping IntervalIndex is not accepted.")
        # ... and the categorical it builds from them needs pairwise distinct intervals
        for a in range(len(ivs)):
            for b in range(a + 1, len(ivs)):
                if bool(ivs[a].left == ivs[b].left) and bool(ivs[a].right == ivs[b].right):
                    raise ValueError("Categorical categories must be unique")
        return _Cat(vals, bins)

    return {"Interval": Interval, "IntervalIndex": IntervalIndex, "interval_range": interval_range, "cut": cut}
