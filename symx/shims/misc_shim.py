"""pandas / dask / pynndescent / os-tempfile models (minimal; grow per harness)."""
import sys
import types
import builtins
from ..core import Unmodelled, SymFault
from . import numpy_shim as np


# ---------------------------------------------------------------- dask
class _Delayed:
    def __init__(self, fn, args=(), kw=None, is_call=False):
        self.fn, self.args, self.kw, self.is_call = fn, args, kw or {}, is_call

    def __call__(self, *a, **kw):
        return _Delayed(self.fn, a, kw, True)

    def compute(self, **kw):
        return _compute(self)


TASK_HOOK = []   # callables (fn, args, kw) -> context manager, used by the non-interference monitor


def _compute(x):
    if isinstance(x, _Delayed):
        if not x.is_call:
            return x.fn
        args = [_compute(a) for a in x.args]
        kw = {k: _compute(v) for k, v in x.kw.items()}
        if TASK_HOOK:
            return TASK_HOOK[-1](x.fn, args, kw)
        return x.fn(*args, **kw)
    if isinstance(x, list):
        return [_compute(a) for a in x]
    if isinstance(x, tuple):
        return tuple(_compute(a) for a in x)
    return x


def delayed(fn, **kw):
    return _Delayed(fn)


# ---------------------------------------------------------------- file system model
class FSModel:
    def __init__(self):
        self.reset()

    def reset(self):
        self.live = set()
        self.counter = 0
        self.log = []

    def mkdtemp(self, *a, **k):
        self.counter += 1
        p = "/symtmp/d%d" % self.counter
        self.live.add(p)
        self.log.append(("mkdtemp", p))
        return p

    def open_memmap(self, filename, mode):
        if "w" in mode:
            self.live.add(filename)
            self.log.append(("create", filename))
        elif filename not in self.live:
            raise FileNotFoundError(filename)

    def remove(self, p):
        if p not in self.live:
            raise FileNotFoundError(p)
        self.live.discard(p)
        self.log.append(("remove", p))

    def rmdir(self, p):
        if p not in self.live:
            raise FileNotFoundError(p)
        if builtins.any(q != p and q.startswith(p + "/") for q in self.live):
            raise OSError("Directory not empty: %s" % p)
        self.live.discard(p)
        self.log.append(("rmdir", p))

    def rmtree(self, p, ignore_errors=False):
        for q in list(self.live):
            if q == p or q.startswith(p + "/"):
                self.live.discard(q)
        self.log.append(("rmtree", p))


FS = FSModel()


def install(mods):
    from ..loader import AutoStub
    dask = AutoStub("dask", {"delayed": delayed, "compute": lambda *a, **k: tuple(_compute(x) for x in a)})
    mods["dask"] = dask
    mods["pandas"] = AutoStub("pandas")
    mods["pandas.api"] = AutoStub("pandas.api")
    mods["pandas.api.types"] = AutoStub("pandas.api.types", {"is_datetime64_any_dtype": lambda x: False})
    mods["pynndescent"] = AutoStub("pynndescent")
    mods["pynndescent.optimal_transport"] = AutoStub("pynndescent.optimal_transport")
    mods["pynndescent.distances"] = AutoStub("pynndescent.distances", {"named_distances": {}})
    mods["pomegranate"] = AutoStub("pomegranate")
    mods["iisignature"] = AutoStub("iisignature")
