"""scipy.sparse model over (row, col, value) storage with concrete structure and symbolic values.

Implements the rules the repository relies on (scipy 1.18 behaviour): inferred shapes, shape checks of the
coo / csr constructors, duplicate handling, boolean column selection with length check, in-place clean-ups.
Anything else raises Unmodelled.
"""
import types
import builtins
from . import numpy_shim as np
from .numpy_shim import ndarray, _cint
from ..core import Unmodelled, OOBFault, PurityFault
from ..values import Q, is_sym, to_real, Poison, NaN


def _carr(a, what="index"):
    """concrete python ints out of an index array (case-splits symbolic entries)"""
    return [_cint(v, what) for v in np._A(a)._flat()]


def _dtype_of(a, dtype):
    if dtype is not None:
        return np._dt(dtype)
    return a.dtype if isinstance(a, ndarray) else np.float64


class spmatrix:
    __array_priority__ = 200

    def __init__(self, fmt, shape, **st):
        self.format = fmt
        self._shape = (int(shape[0]), int(shape[1]))
        self.__dict__.update(st)
        self.has_sorted_indices = False
        self.has_canonical_format = False
        self._frozen = None

    def _freeze(self, name="matrix"):
        """purity monitor: the matrix belongs to the caller; an in-place change of its structure or values is a fault"""
        self._frozen = name
        for a in ("data", "indices", "indptr", "row", "col"):
            v = self.__dict__.get(a)
            if isinstance(v, ndarray):
                np.freeze(v, "%s.%s" % (name, a))
        return self

    def _mutating(self, what):
        if getattr(self, "_frozen", None):
            raise PurityFault("%s on caller-owned sparse matrix %s" % (what, self._frozen))

    # ------------------------------------------------------------------ basics
    @property
    def shape(self):
        return self._shape

    @shape.setter
    def shape(self, s):
        self.resize(s)

    ndim = 2

    @property
    def dtype(self):
        return self.data.dtype if self.format != "lil" else self._dtype

    @property
    def nnz(self):
        if self.format == "lil":
            return builtins.sum(len(r) for r in self.rows.tolist())
        return self.data.shape[0]

    def getnnz(self):
        return self.nnz

    def count_nonzero(self):
        return builtins.sum(1 for v in self.data._flat() if bool(v != 0))

    def __len__(self):
        raise TypeError("sparse array length is ambiguous; use getnnz() or shape[0]")

    def __bool__(self):
        if self._shape == (1, 1):
            return self.nnz != 0
        raise ValueError("The truth value of an array with more than one element is ambiguous.")

    def getformat(self):
        return self.format

    def _triples(self):
        """list of (r, c, v) in storage order (duplicates preserved)"""
        if self.format == "coo":
            return list(zip(_carr(self.row, "coo row"), _carr(self.col, "coo col"), self.data._flat()))
        if self.format in ("csr", "csc"):
            ptr = _carr(self.indptr, "indptr")
            idx = _carr(self.indices, "indices")
            dat = self.data._flat()
            out = []
            for i in range(len(ptr) - 1):
                for k in range(ptr[i], ptr[i + 1]):
                    if k >= len(idx) or k >= len(dat):
                        raise OOBFault("csr index pointer beyond data")
                    out.append((i, idx[k], dat[k]) if self.format == "csr" else (idx[k], i, dat[k]))
            return out
        if self.format == "lil":
            out = []
            rows, data = self.rows.tolist(), self.data_l.tolist()
            for i in range(self._shape[0]):
                for c, v in zip(rows[i], data[i]):
                    out.append((i, c, v))
            return out
        raise Unmodelled("format " + self.format)

    # ------------------------------------------------------------ conversions
    def _summed(self, triples):
        acc = {}
        order = []
        for r, c, v in triples:
            k = (r, c)
            if k in acc:
                acc[k] = acc[k] + v
            else:
                acc[k] = v
                order.append(k)
        return acc, order

    def tocoo(self, copy=False):
        if self.format == "coo":
            return self.copy() if copy else self
        t = self._triples()
        return _mk_coo(t, self._shape, self.dtype)

    def tocsr(self, copy=False):
        if self.format == "csr":
            return self.copy() if copy else self
        acc, order = self._summed(self._triples())
        keys = builtins.sorted(order)
        return _mk_cs("csr", [(r, c, acc[(r, c)]) for r, c in keys], self._shape, self.dtype, canonical=True)

    def tocsc(self, copy=False):
        if self.format == "csc":
            return self.copy() if copy else self
        acc, order = self._summed(self._triples())
        keys = builtins.sorted(order, key=lambda k: (k[1], k[0]))
        return _mk_cs("csc", [(r, c, acc[(r, c)]) for r, c in keys], self._shape, self.dtype, canonical=True)

    def tolil(self, copy=False):
        if self.format == "lil":
            return self.copy() if copy else self
        acc, order = self._summed(self._triples())
        return _mk_lil([(r, c, acc[(r, c)]) for r, c in builtins.sorted(order)], self._shape, self.dtype)

    def asformat(self, fmt, copy=False):
        return getattr(self, "to" + fmt)(copy=copy)

    def toarray(self, order=None, out=None):
        dt = self.dtype
        r = np.zeros(self._shape, dt)
        for i, j, v in self._triples():
            r[i, j] = r[i, j] + v
        return r

    todense = toarray

    @property
    def A(self):
        return self.toarray()

    def copy(self):
        if self.format == "coo":
            return spmatrix("coo", self._shape, row=self.row.copy(), col=self.col.copy(), data=self.data.copy())
        if self.format in ("csr", "csc"):
            m = spmatrix(self.format, self._shape, data=self.data.copy(), indices=self.indices.copy(), indptr=self.indptr.copy())
            m.has_sorted_indices = self.has_sorted_indices
            return m
        if self.format == "lil":
            return _mk_lil(self._triples(), self._shape, self._dtype)

    def astype(self, dt, copy=True):
        m = self.copy()
        if m.format == "lil":
            m._dtype = np._dt(dt)
        else:
            m.data = m.data.astype(dt)
        return m

    # --------------------------------------------------------- in-place tidy
    def sum_duplicates(self):
        if self.format == "coo":
            t0 = self._triples()
            if len(set((r, c) for r, c, _ in t0)) != len(t0) or [(r, c) for r, c, _ in t0] != builtins.sorted((r, c) for r, c, _ in t0):
                self._mutating("sum_duplicates")
            acc, order = self._summed(self._triples())
            keys = builtins.sorted(order, key=lambda k: (k[1], k[0]))  # scipy sorts by (col, row) via lexsort((row, col))? result order is row-major
            keys = builtins.sorted(order)
            n = _mk_coo([(r, c, acc[(r, c)]) for r, c in keys], self._shape, self.dtype)
            self.row, self.col, self.data = n.row, n.col, n.data
            self.has_canonical_format = True
            return
        if self.format in ("csr", "csc"):
            self._mutating("sum_duplicates")
            n = (self.tocoo().tocsr() if self.format == "csr" else self.tocoo().tocsc())
            self.data, self.indices, self.indptr = n.data, n.indices, n.indptr
            self.has_sorted_indices = True
            self.has_canonical_format = True
            return
        raise Unmodelled("sum_duplicates on " + self.format)

    def eliminate_zeros(self):
        if self.format == "coo":
            keep = [i for i, v in enumerate(self.data._flat()) if bool(v != 0)]
            if len(keep) != self.data.shape[0]:
                self._mutating("eliminate_zeros")
            self.row = self.row[keep] if keep else np.zeros(0, self.row.dtype)
            self.col = self.col[keep] if keep else np.zeros(0, self.col.dtype)
            self.data = self.data[keep] if keep else np.zeros(0, self.data.dtype)
            return
        if self.format in ("csr", "csc"):
            ptr = _carr(self.indptr)
            idx = self.indices._flat()
            dat = self.data._flat()
            nidx, ndat, nptr = [], [], [0]
            for i in range(len(ptr) - 1):
                for k in range(ptr[i], ptr[i + 1]):
                    if bool(dat[k] != 0):
                        nidx.append(idx[k])
                        ndat.append(dat[k])
                nptr.append(len(nidx))
            if len(nidx) != len(idx):
                self._mutating("eliminate_zeros")
            self.indices = ndarray._from_flat(nidx, (len(nidx),), self.indices.dtype)
            self.data = ndarray._from_flat(ndat, (len(ndat),), self.data.dtype)
            self.indptr = ndarray._from_flat(nptr, (len(nptr),), self.indptr.dtype)
            return
        raise Unmodelled("eliminate_zeros on " + self.format)

    def sort_indices(self):
        if self.format not in ("csr", "csc"):
            raise Unmodelled("sort_indices on " + self.format)
        ptr = _carr(self.indptr)
        idx = _carr(self.indices)
        dat = self.data._flat()
        nidx, ndat = [], []
        for i in range(len(ptr) - 1):
            seg = builtins.sorted(range(ptr[i], ptr[i + 1]), key=lambda k: idx[k])
            nidx.extend(idx[k] for k in seg)
            ndat.extend(dat[k] for k in seg)
        if nidx != idx:
            self._mutating("sort_indices")
        self.indices = ndarray._from_flat(nidx, (len(nidx),), self.indices.dtype)
        self.data = ndarray._from_flat(ndat, (len(ndat),), self.data.dtype)
        self.has_sorted_indices = True

    def sorted_indices(self):
        m = self.copy()
        m.sort_indices()
        return m

    def prune(self):
        pass

    def resize(self, *shape):
        if len(shape) == 1:
            shape = shape[0]
        M, N = int(shape[0]), int(shape[1])
        if (M, N) != self._shape:
            self._mutating("resize")
        t = [(r, c, v) for r, c, v in self._triples() if r < M and c < N]
        n = _mk(self.format, t, (M, N), self.dtype)
        self.__dict__.update(n.__dict__)

    # ------------------------------------------------------------- arithmetic
    @property
    def T(self):
        return self.transpose()

    def transpose(self, *a, **k):
        t = [(c, r, v) for r, c, v in self._triples()]
        fmt = {"csr": "csc", "csc": "csr"}.get(self.format, self.format)
        M, N = self._shape
        if fmt == "csr":
            t.sort(key=lambda x: x[0])
        if fmt == "csc":
            t.sort(key=lambda x: x[1])
        return _mk(fmt, t, (N, M), self.dtype)

    def __neg__(self):
        m = self.copy()
        m.data = -m.data
        return m

    def _dense_rows(self):
        return self.toarray()

    def __add__(self, o):
        if isinstance(o, (int,)) and o == 0:
            return self.copy()
        if isinstance(o, spmatrix):
            if o._shape != self._shape:
                raise ValueError("inconsistent shapes")
            t = self.tocsr()._triples() + o.tocsr()._triples()
            acc, order = self._summed(t)
            dt = np._promote(self.dtype, o.dtype)
            return _mk_cs("csr", [(r, c, acc[(r, c)]) for r, c in builtins.sorted(order)], self._shape, dt, canonical=True)
        if isinstance(o, ndarray):
            return self.toarray() + o
        return NotImplemented

    def __radd__(self, o):
        return self.__add__(o)

    def __sub__(self, o):
        if isinstance(o, spmatrix):
            return self + (-o)
        if isinstance(o, ndarray):
            return self.toarray() - o
        return NotImplemented

    def _scale(self, s):
        m = self.copy() if self.format != "lil" else self.tocsr()
        m.data = m.data * s
        return m

    def __mul__(self, o):
        if isinstance(o, (spmatrix, ndarray)):
            return self.dot(o)
        if np.isscalar(o) or is_sym(o):
            return self._scale(o)
        return NotImplemented

    def __rmul__(self, o):
        if np.isscalar(o) or is_sym(o):
            return self._scale(o)
        if isinstance(o, ndarray):
            return np.dot(o, self.toarray())
        return NotImplemented

    def __truediv__(self, o):
        if np.isscalar(o) or is_sym(o):
            m = self.copy()
            m.data = m.data / o
            return m
        raise Unmodelled("sparse / array")

    def __matmul__(self, o):
        return self.dot(o)

    def __rmatmul__(self, o):
        if isinstance(o, ndarray):
            return np.dot(o, self.toarray())
        return NotImplemented

    def dot(self, o):
        if isinstance(o, spmatrix):
            if self._shape[1] != o._shape[0]:
                raise ValueError("dimension mismatch")
            a = self.tocsr()
            b = o.tocsr()
            brow = {}
            for r, c, v in b._triples():
                brow.setdefault(r, []).append((c, v))
            acc = {}
            order = []
            for r, c, v in a._triples():
                for c2, v2 in brow.get(c, ()):
                    k = (r, c2)
                    p = v * v2
                    if k in acc:
                        acc[k] = acc[k] + p
                    else:
                        acc[k] = p
                        order.append(k)
            dt = np._promote(self.dtype, o.dtype)
            return _mk_cs("csr", [(r, c, acc[(r, c)]) for r, c in builtins.sorted(order)], (self._shape[0], o._shape[1]), dt, canonical=True)
        o = np._A(o)
        return np.dot(self.toarray(), o)

    def multiply(self, o):
        if isinstance(o, spmatrix):
            if o._shape != self._shape:
                raise Unmodelled("broadcast multiply")
            b = {}
            for r, c, v in o.tocsr()._triples():
                b[(r, c)] = v
            t = [(r, c, v * b[(r, c)]) for r, c, v in self.tocsr()._triples() if (r, c) in b]
            return _mk_cs("csr", t, self._shape, np._promote(self.dtype, o.dtype), canonical=True)
        o = np._A(o)
        ob = np.broadcast_to(o, self._shape)
        t = [(r, c, v * ob[r, c]) for r, c, v in self.tocsr()._triples()]
        return _mk("coo" if self.format == "coo" else "csr", t, self._shape, np._promote(self.dtype, o.dtype))

    def power(self, p):
        m = self.copy()
        m.data = m.data ** p
        return m

    def sum(self, axis=None):
        t = self._triples()
        M, N = self._shape
        if axis is None:
            return np._sumlist([v for _, _, v in t], self.dtype)
        if axis in (0, -2):
            out = [Q(0) if self.dtype.kind == "f" else 0 for _ in range(N)]
            for r, c, v in t:
                out[c] = out[c] + v
            return ndarray._from_flat(out, (1, N), self.dtype if self.dtype.kind == "f" else np.int64)
        out = [Q(0) if self.dtype.kind == "f" else 0 for _ in range(M)]
        for r, c, v in t:
            out[r] = out[r] + v
        return ndarray._from_flat(out, (M, 1), self.dtype if self.dtype.kind == "f" else np.int64)

    def mean(self, axis=None):
        raise Unmodelled("sparse mean")

    def max(self, axis=None):
        if axis is not None:
            raise Unmodelled("sparse max axis")
        vals = [v for _, _, v in self.tocsr()._triples()]
        if len(vals) < self._shape[0] * self._shape[1]:
            vals.append(0)
        return np._maxlist(vals)

    def diagonal(self):
        n = builtins.min(self._shape)
        d = [0] * n
        for r, c, v in self.tocsr()._triples():
            if r == c:
                d[r] = v
        return np.array(d, dtype=self.dtype)

    def setdiag(self, v):
        raise Unmodelled("setdiag")

    def nonzero(self):
        t = [(r, c) for r, c, v in self.tocsr()._triples() if bool(v != 0)]
        return (np.array([r for r, _ in t], dtype=np.int32), np.array([c for _, c in t], dtype=np.int32))

    # --------------------------------------------------------------- indexing
    def _axis_sel(self, k, n, axis):
        """-> (list of selected source indices, is_scalar)"""
        if isinstance(k, slice):
            return list(range(*k.indices(n))), False
        if isinstance(k, (ndarray, list, tuple)):
            ka = np._A(k)
            if ka.dtype.kind == "b":
                if ka.shape[0] != n:
                    raise IndexError("boolean index shape mismatch along axis %d: %d vs %d" % (axis, ka.shape[0], n))
                return [i for i, f in enumerate(ka._flat()) if np._truth(f)], False
            return [np._cidx(i, n, "sparse fancy index") for i in ka._flat()], False
        return [np._cidx(k, n, "sparse index")], True

    def __getitem__(self, key):
        if self.format == "coo":
            raise TypeError("'coo_matrix' object is not subscriptable")
        if not isinstance(key, tuple):
            key = (key, slice(None))
        rk, ck = key
        M, N = self._shape
        rs, rscalar = self._axis_sel(rk, M, 0)
        cs, cscalar = self._axis_sel(ck, N, 1)
        src = self.tocsr() if self.format != "csr" else self
        acc, _ = self._summed(src._triples())
        if rscalar and cscalar:
            return acc.get((rs[0], cs[0]), Q(0) if self.dtype.kind == "f" else 0)
        t = []
        for i, r in enumerate(rs):
            for j, c in enumerate(cs):
                if (r, c) in acc:
                    t.append((i, j, acc[(r, c)]))
        fmt = self.format if self.format in ("csr", "csc", "lil") else "csr"
        if fmt == "csc":
            t.sort(key=lambda x: (x[1], x[0]))
        return _mk(fmt, t, (len(rs), len(cs)), self.dtype)

    def __setitem__(self, key, v):
        if self.format != "lil":
            raise Unmodelled("sparse setitem on " + self.format)
        self._mutating("item assignment")
        r, c = key
        r = np._cidx(r, self._shape[0])
        c = np._cidx(c, self._shape[1])
        rows = self.rows[r]
        if c in rows:
            self.data_l[r][rows.index(c)] = v
        else:
            import bisect
            p = bisect.bisect(rows, c)
            rows.insert(p, c)
            self.data_l[r].insert(p, v)

    def getrow(self, i):
        return self[i, :]

    def getcol(self, j):
        return self[:, j]

    def _concretize(self, model):
        from ..values import concretize_struct
        return {"shape": list(self._shape), "dense": concretize_struct(self.toarray().tolist(), model)}

    def __repr__(self):
        return "<sym %s %s nnz=%d>" % (self.format, self._shape, self.nnz)


def _idx_dtype(n):
    return np.int32


def _mk_coo(t, shape, dt):
    return spmatrix("coo", shape,
                    row=ndarray._from_flat([r for r, _, _ in t], (len(t),), np.int32),
                    col=ndarray._from_flat([c for _, c, _ in t], (len(t),), np.int32),
                    data=ndarray._from_flat([v for _, _, v in t], (len(t),), dt))


def _mk_cs(fmt, t, shape, dt, canonical=False):
    """t must already be grouped by major axis in order"""
    major = 0 if fmt == "csr" else 1
    n = shape[major]
    ptr = [0] * (n + 1)
    for x in t:
        ptr[x[major] + 1] += 1
    for i in range(n):
        ptr[i + 1] += ptr[i]
    # stable grouping
    groups = [[] for _ in range(n)]
    for x in t:
        groups[x[major]].append(x)
    flat = [x for g in groups for x in g]
    m = spmatrix(fmt, shape,
                 data=ndarray._from_flat([v for _, _, v in flat], (len(flat),), dt),
                 indices=ndarray._from_flat([x[1 - major] for x in flat], (len(flat),), np.int32),
                 indptr=ndarray._from_flat(ptr, (n + 1,), np.int32))
    m.has_sorted_indices = canonical
    m.has_canonical_format = canonical
    return m


def _mk_lil(t, shape, dt):
    rows = [[] for _ in range(shape[0])]
    data = [[] for _ in range(shape[0])]
    for r, c, v in builtins.sorted(t, key=lambda x: (x[0], x[1])):
        rows[r].append(c)
        data[r].append(v)
    m = spmatrix("lil", shape, _dtype=dt)
    m.rows = ndarray._from_flat(rows, (shape[0],), np.object_, cast=False)
    m.data_l = ndarray._from_flat(data, (shape[0],), np.object_, cast=False)
    return m


def _lil_data_get(self):
    return self.data_l


def _mk(fmt, t, shape, dt):
    if fmt == "coo":
        return _mk_coo(t, shape, dt)
    if fmt in ("csr", "csc"):
        return _mk_cs(fmt, t, shape, dt)
    if fmt == "lil":
        return _mk_lil(t, shape, dt)
    raise Unmodelled(fmt)


def _is_shape(x):
    return isinstance(x, tuple) and len(x) == 2 and builtins.all(isinstance(v, (int,)) or is_sym(v) for v in x) and not isinstance(x[1], tuple)


def _construct(fmt, arg, shape=None, dtype=None, copy=False):
    if isinstance(arg, spmatrix):
        m = arg.asformat(fmt, copy=True) if arg.format != fmt else arg.copy()
        if dtype is not None:
            m = m.astype(dtype)
        return m
    if isinstance(arg, ndarray) or (isinstance(arg, list)):
        a = np._A(arg)
        if a.ndim == 1:
            a = a.reshape(1, a.shape[0])
        if a.ndim != 2:
            raise ValueError("expected 2-d input")
        dt = np._dt(dtype) or (a.dtype if a.dtype.kind != "O" else np.float64)
        t = []
        for i in range(a.shape[0]):
            for j in range(a.shape[1]):
                v = a[i, j]
                if bool(v != 0):
                    t.append((i, j, v))
        sh = a.shape if shape is None else (int(shape[0]), int(shape[1]))
        if fmt == "csc":
            t.sort(key=lambda x: (x[1], x[0]))
        m = _mk(fmt, t, sh, dt)
        m.has_sorted_indices = True
        return m
    if _is_shape(arg):
        M, N = _cint(arg[0]), _cint(arg[1])
        if M < 0 or N < 0:
            raise ValueError("'shape' elements cannot be negative")
        return _mk(fmt, [], (M, N), np._dt(dtype) or np.float64)
    if isinstance(arg, tuple) and len(arg) == 2 and isinstance(arg[1], tuple):
        data, (row, col) = arg
        data, row, col = np._A(data), np._A(row), np._A(col)
        if not (data.shape[0] == row.shape[0] == col.shape[0]) or data.ndim != 1:
            raise ValueError("row, column, and data array must all be the same length")
        r, c = _carr(row, "coo row"), _carr(col, "coo col")
        if shape is None:
            if len(r) == 0 or len(c) == 0:
                raise ValueError("cannot infer dimensions from zero sized index arrays")
            M, N = builtins.max(r) + 1, builtins.max(c) + 1
        else:
            M, N = _cint(shape[0]), _cint(shape[1])
            if M < 0 or N < 0:
                raise ValueError("'shape' elements cannot be negative")
        if len(r) > 0:
            if builtins.max(r) >= M:
                raise ValueError("row index exceeds matrix dimensions")
            if builtins.max(c) >= N:
                raise ValueError("column index exceeds matrix dimensions")
            if builtins.min(r) < 0:
                raise ValueError("negative row index found")
            if builtins.min(c) < 0:
                raise ValueError("negative column index found")
        dt = np._dt(dtype) or data.dtype
        coo = _mk_coo(list(zip(r, c, data._flat())), (M, N), dt)
        return coo if fmt == "coo" else coo.asformat(fmt)
    if isinstance(arg, tuple) and len(arg) == 3:
        if fmt not in ("csr", "csc"):
            raise Unmodelled("(data, indices, indptr) for " + fmt)
        data, indices, indptr = np._A(arg[0]), np._A(arg[1]), np._A(arg[2])
        major = 0 if fmt == "csr" else 1
        ptr = _carr(indptr, "indptr")
        idx = _carr(indices, "indices")
        if data.ndim != 1 or indices.ndim != 1 or indptr.ndim != 1:
            raise ValueError("data, indices, and indptr should be 1-D")
        if shape is not None:
            M, N = _cint(shape[0]), _cint(shape[1])
        else:
            nmaj = len(ptr) - 1
            if nmaj < 0:
                raise ValueError("index pointer size 0 should be at least 1")
            nmin = (builtins.max(idx) + 1) if idx else 0
            M, N = (nmaj, nmin) if major == 0 else (nmin, nmaj)
        nmaj = (M, N)[major]
        if len(ptr) != nmaj + 1:
            raise ValueError("index pointer size (%d) should be (%d)" % (len(ptr), nmaj + 1))
        if ptr[0] != 0:
            raise ValueError("index pointer should start with 0")
        if len(idx) != data.shape[0]:
            raise ValueError("indices and data should have the same size")
        if ptr[-1] > len(idx):
            raise ValueError("Last value of index pointer should be less than the size of index and data arrays")
        # prune to indptr[-1]
        nn = ptr[-1]
        dt = np._dt(dtype) or data.dtype
        m = spmatrix(fmt, (M, N), data=(data[:nn].astype(dt) if dt != data.dtype else data[:nn].copy()),
                     indices=ndarray._from_flat(idx[:nn], (nn,), np.int32),
                     indptr=ndarray._from_flat(ptr, (len(ptr),), np.int32))
        return m
    raise Unmodelled("sparse constructor argument %r" % (type(arg),))


def _ctor(fmt):
    def f(arg, shape=None, dtype=None, copy=False):
        return _construct(fmt, arg, shape=shape, dtype=dtype, copy=copy)
    f.__name__ = fmt + "_matrix"
    return f


coo_matrix = _ctor("coo")
csr_matrix = _ctor("csr")
csc_matrix = _ctor("csc")
lil_matrix = _ctor("lil")
coo_array, csr_array, csc_array, lil_array = coo_matrix, csr_matrix, csc_matrix, lil_matrix


def issparse(x):
    return isinstance(x, spmatrix)


isspmatrix = issparse


def isspmatrix_csr(x):
    return isinstance(x, spmatrix) and x.format == "csr"


def isspmatrix_csc(x):
    return isinstance(x, spmatrix) and x.format == "csc"


def isspmatrix_coo(x):
    return isinstance(x, spmatrix) and x.format == "coo"


def isspmatrix_lil(x):
    return isinstance(x, spmatrix) and x.format == "lil"


def hstack(blocks, format=None, dtype=None):
    blocks = [b if isinstance(b, spmatrix) else csr_matrix(b) for b in blocks]
    M = blocks[0]._shape[0]
    t = []
    off = 0
    dt = blocks[0].dtype
    for b in blocks:
        if b._shape[0] != M:
            raise ValueError("blocks must have the same number of rows")
        for r, c, v in b._triples():
            t.append((r, c + off, v))
        off += b._shape[1]
        dt = np._promote(dt, b.dtype)
    fmt = format or ("csr" if builtins.all(b.format == "csr" for b in blocks) else "coo")
    if fmt == "csr":
        t.sort(key=lambda x: x[0])
    return _mk(fmt, t, (M, off), np._dt(dtype) or dt)


def vstack(blocks, format=None, dtype=None):
    blocks = [b if isinstance(b, spmatrix) else csr_matrix(b) for b in blocks]
    N = blocks[0]._shape[1]
    t = []
    off = 0
    dt = blocks[0].dtype
    for b in blocks:
        if b._shape[1] != N:
            raise ValueError("blocks must have the same number of columns: incompatible dimensions")
        for r, c, v in b.tocsr()._triples():
            t.append((r + off, c, v))
        off += b._shape[0]
        dt = np._promote(dt, b.dtype)
    fmt = format or ("csr" if builtins.all(b.format == "csr" for b in blocks) else "coo")
    return _mk(fmt, t, (off, N), np._dt(dtype) or dt)


def diags(d, offsets=0, shape=None, format=None, dtype=None):
    d = np._A(d)
    if d.ndim != 1 or offsets != 0:
        raise Unmodelled("diags general")
    n = d.shape[0]
    return _mk(format or "csr", [(i, i, d[i]) for i in range(n)], (n, n), np._dt(dtype) or d.dtype)


class _Dia(spmatrix):
    """scipy.sparse.eye without a format: DIA storage, .data is the 2-d array of diagonals (here exactly one)"""

    def __init__(self, n, m, dtype):
        spmatrix.__init__(self, "dia", (n, m))
        self.__dict__["data"] = np.array([[Q(1)] * builtins.min(n, m)], dtype=dtype)
        self.offsets = np.array([0], dtype=np.int32)

    def _triples(self):
        d = self.__dict__["data"]
        return [(i, i, d[0, i]) for i in range(d.shape[1])]

    def copy(self):
        c = _Dia(self._shape[0], self._shape[1], self.__dict__["data"].dtype)
        c.__dict__["data"] = self.__dict__["data"].copy()
        return c

    def tocoo(self, copy=False):
        return _mk_coo(self._triples(), self._shape, self.__dict__["data"].dtype)

    def tocsr(self, copy=False):
        return _mk_cs("csr", self._triples(), self._shape, self.__dict__["data"].dtype, canonical=True)

    def tocsc(self, copy=False):
        return _mk_cs("csc", self._triples(), self._shape, self.__dict__["data"].dtype, canonical=True)

    def dot(self, o):
        return self.tocsr().dot(o)

    def __matmul__(self, o):
        return self.tocsr().dot(o)


def eye(n, m=None, dtype=np.float64, format=None):
    n = _cint(n)
    if format is None:
        return _Dia(n, m or n, np._dt(dtype))
    return _mk(format, [(i, i, Q(1)) for i in range(n)], (n, m or n), np._dt(dtype))


identity = eye


def find(m):
    m = m.tocoo()
    return m.row, m.col, m.data


class _SparseNS(types.ModuleType):
    pass


def install(mods):
    from ..loader import AutoStub
    sp = AutoStub("scipy")
    sparse = AutoStub("scipy.sparse", {k: v for k, v in globals().items() if not k.startswith("_") and k not in ("np", "types", "builtins")})
    sparse._models["spmatrix"] = spmatrix
    sparse._models["sparray"] = spmatrix
    linalg = AutoStub("scipy.sparse.linalg")
    sparse._models["linalg"] = linalg
    sp._models["sparse"] = sparse
    sp._models["linalg"] = AutoStub("scipy.linalg")
    sp._models["stats"] = AutoStub("scipy.stats")
    sp._models["special"] = AutoStub("scipy.special")
    sp._models["optimize"] = AutoStub("scipy.optimize")
    mods["scipy"] = sp
    mods["scipy.sparse"] = sparse
    mods["scipy.sparse.linalg"] = linalg
    mods["scipy.linalg"] = sp._models["linalg"]
    mods["scipy.stats"] = sp._models["stats"]
    mods["scipy.special"] = sp._models["special"]
    mods["scipy.optimize"] = sp._models["optimize"]


# lil exposes .data as the per-row value lists
def _data_get(self):
    if self.format == "lil":
        return self.__dict__["data_l"]
    return self.__dict__["data"]


def _data_set(self, v):
    if self.format == "lil":
        self.__dict__["data_l"] = v
    else:
        self.__dict__["data"] = v


spmatrix.data = property(_data_get, _data_set)
