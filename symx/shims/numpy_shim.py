"""Symbolic model of the part of numpy that the repository uses.

List-backed n-d arrays with *view semantics* (buffer + offset + shape + strides), dtype tags with
casts on store, bounds-checked indexing (OOB -> OOBFault with the model that reaches it), np.empty
filled with Poison, purity / race / write-set monitors.  Shapes are always concrete.
"""
import builtins
import math as _math
import itertools as _it
from fractions import Fraction
import z3

from .. import core
from ..core import OOBFault, SymFault, PurityFault, RaceFault, Unmodelled
from ..values import (SInt, SReal, SBool, Q, Poison, NaN, is_sym, lift, wrap, to_real, strunc, sround, sfloor,
                      sceil, smax, smin, ssqrt, slog, sexp, upow, ite, _qify, INF, sand, sor, snot)

inf = INF
nan = float("nan")
pi = _math.pi
newaxis = None

_SF = None  # SFloat class, set by symx.fp when IEEE mode is used
IEEE = False


def _is_sfloat(v):
    return _SF is not None and isinstance(v, _SF)


# --------------------------------------------------------------------- dtypes
class dtype_:
    def __init__(self, name, kind, itemsize):
        self.name = name
        self.kind = kind
        self.itemsize = itemsize
        self.__name__ = name

    def __getitem__(self, k):
        return self          # numba type syntax: float64[:], float64[:, :]

    def cast(self, v):
        k = self.kind
        if isinstance(v, (Poison,)):
            return v
        if _is_sfloat(v):
            if k == "f":
                return v.astype(self.name)
            if k in "iu":
                return v.to_int()
            return v
        if k == "f":
            if IEEE and isinstance(v, (bool, int, float, Fraction, SInt)):
                from .. import fp as _fp
                if isinstance(v, (float, Fraction)):
                    return _fp.SFloat(z3.FPVal(float(v), _fp.SORTS[self.name]), False)
                return _fp.SFloat(_fp.from_int(v, _fp.SORTS[self.name]), False)
            if isinstance(v, (SReal, NaN)):
                return v
            if isinstance(v, (SInt, SBool)):
                return to_real(v)
            if isinstance(v, float) and (v != v or v in (INF, -INF)):
                return v
            if isinstance(v, (bool, int, float, Fraction)):
                return Q(v)
            return v
        if k in "iu":
            if isinstance(v, (SInt, int)) and not isinstance(v, bool):
                return v
            if isinstance(v, bool):
                return int(v)
            if isinstance(v, SBool):
                return v._n()
            if isinstance(v, SReal):
                return strunc(v)
            if isinstance(v, NaN):
                return v
            if isinstance(v, (float, Fraction)):
                return int(v)
            return v
        if k == "b":
            if isinstance(v, (bool, SBool)):
                return v
            if isinstance(v, (NaN,)):
                return True
            return v != 0
        return v

    def __call__(self, x=0):
        if isinstance(x, ndarray):
            return x.astype(self)
        if isinstance(x, (list, tuple)):
            return array(x, dtype=self)
        return self.cast(x)

    def __repr__(self):
        return "dtype(%s)" % self.name

    def __eq__(self, o):
        o = _dt(o) if o is not None else None
        return isinstance(o, dtype_) and o.name == self.name

    def __ne__(self, o):
        return not self.__eq__(o)

    def __hash__(self):
        return hash(self.name)

    @property
    def type(self):
        return self


float64 = dtype_("float64", "f", 8)
float32 = dtype_("float32", "f", 4)
float16 = dtype_("float16", "f", 2)
int64 = dtype_("int64", "i", 8)
int32 = dtype_("int32", "i", 4)
int16 = dtype_("int16", "i", 2)
int8 = dtype_("int8", "i", 1)
uint64 = dtype_("uint64", "u", 8)
uint32 = dtype_("uint32", "u", 4)
uint16 = dtype_("uint16", "u", 2)
uint8 = dtype_("uint8", "u", 1)
bool_ = dtype_("bool", "b", 1)
object_ = dtype_("object", "O", 8)
intc = int32
intp = int64
double = float64
single = float32


class _Abstract:
    def __init__(self, kinds):
        self.kinds = kinds


integer = _Abstract("iu")
floating = _Abstract("f")
number = _Abstract("iuf")


def issubdtype(d, a):
    d = _dt(d)
    if isinstance(a, _Abstract):
        return d.kind in a.kinds
    return d == _dt(a)


def _dt(d):
    if d is None:
        return None
    if isinstance(d, dtype_):
        return d
    if d is float:
        return float64
    if d is int:
        return int64
    if d is bool:
        return bool_
    if d is object:
        return object_
    if isinstance(d, type):
        if d.__name__ in ("SInt", "sym_int"):
            return int64
        if d.__name__ in ("SReal", "Q", "Fraction", "sym_float"):
            return float64
        if d.__name__ in ("SBool",):
            return bool_
        if d.__name__ in ("str", "SymStr", "tuple", "list", "NoneType", "dict", "ndarray"):
            return object_
    if isinstance(d, str):
        return {"float32": float32, "float64": float64, "int32": int32, "int64": int64, "bool": bool_,
                "f4": float32, "f8": float64, "i4": int32, "i8": int64}[d]
    nm = getattr(d, "name", None)
    if nm:
        return _dt(nm)
    raise Unmodelled("dtype %r" % (d,))


def dtype(d):
    return _dt(d)


class iinfo:
    def __init__(self, dt):
        dt = _dt(dt)
        bits = dt.itemsize * 8
        if dt.kind == "u":
            self.min, self.max = 0, 2 ** bits - 1
        else:
            self.min, self.max = -(2 ** (bits - 1)), 2 ** (bits - 1) - 1


class finfo:
    def __init__(self, dt):
        dt = _dt(dt)
        self.eps = Q(2.0 ** -52) if dt.itemsize == 8 else Q(2.0 ** -23)
        self.max = 1.7976931348623157e308 if dt.itemsize == 8 else 3.4028235e38


def _infer_dtype(vals):
    k = "b"
    for v in vals:
        if isinstance(v, (bool, SBool)):
            continue
        if isinstance(v, (float, Fraction, SReal, NaN)) or _is_sfloat(v):
            return float64
        if isinstance(v, (int, SInt)):
            k = "i"
        elif isinstance(v, Poison):
            k = "i" if k == "b" else k
        else:
            return object_
    if not vals:
        return float64
    return bool_ if k == "b" else int64


def _promote(a, b, op=None):
    """result dtype for a binary op of dtypes a, b (None = python scalar, weak)"""
    if a is None and b is None:
        return None
    if a is None:
        return b
    if b is None:
        return a
    if a.kind == "O" or b.kind == "O":
        return object_
    if a.kind == "f" or b.kind == "f":
        if a.kind == "f" and b.kind == "f":
            return a if a.itemsize >= b.itemsize else b
        f, o = (a, b) if a.kind == "f" else (b, a)
        if o.kind == "b" or o.itemsize <= 2:
            return f
        return float64
    if a.kind == "b" and b.kind == "b":
        return bool_
    if a.kind == "b":
        return b
    if b.kind == "b":
        return a
    return a if a.itemsize >= b.itemsize else b


def _scalar_weak_dtype(v):
    if isinstance(v, (bool, SBool)):
        return bool_
    if isinstance(v, (int, SInt)):
        return int64
    return float64


# -------------------------------------------------------------------- monitors
class Monitor:
    def __init__(self):
        self.epoch = 0           # allocation counter
        self.floor = None        # writes to buffers allocated before this epoch are 'foreign'
        self.foreign_writes = []
        self.race = None         # dict (bufid,pos) -> (iter, 'r'/'w') while inside a prange
        self.race_iter = None

    def reset(self):
        self.__init__()


MON = Monitor()


class Buf:
    __slots__ = ("data", "frozen", "epoch", "name")

    def __init__(self, data):
        self.data = data
        self.frozen = False
        MON.epoch += 1
        self.epoch = MON.epoch
        self.name = None


def _on_write(buf, pos):
    if buf.frozen:
        raise PurityFault("write to caller-owned array %s" % (buf.name or ""))
    if MON.floor is not None and buf.epoch <= MON.floor:
        MON.foreign_writes.append((buf.name or buf.epoch, pos))
    if MON.race is not None:
        key = (buf.epoch, pos)
        prev = MON.race.get(key)
        if prev is not None and prev[0] != MON.race_iter:
            raise RaceFault("cell written by prange iteration %s and %s by %s" % (MON.race_iter, "read" if prev[1] == "r" else "written", prev[0]))
        MON.race[key] = (MON.race_iter, "w")


def _on_read(buf, pos):
    if MON.race is not None:
        key = (buf.epoch, pos)
        prev = MON.race.get(key)
        if prev is not None and prev[1] == "w" and prev[0] != MON.race_iter:
            raise RaceFault("cell read by prange iteration %s was written by iteration %s" % (MON.race_iter, prev[0]))
        if prev is None:
            MON.race[key] = (MON.race_iter, "r")


def freeze(a, name=None):
    """purity monitor: mark an array (or nested list of arrays) as caller-owned / read-only"""
    if isinstance(a, ndarray):
        a.buf.frozen = True
        a.buf.name = name
    elif isinstance(a, (list, tuple)):
        for x in a:
            freeze(x, name)
    return a


# --------------------------------------------------------------------- ndarray
def _cidx(i, n, what="index"):
    """bounds-check a (possibly symbolic) index against length n, return concrete non-negative index"""
    if core.EX is not None:
        core.EX.stats.bounds_checks += 1
    if isinstance(i, (SInt, SBool)):
        if isinstance(i, SBool):
            i = i._n()
        ok = sand(i >= -n, i < n)
        if not ok:
            raise OOBFault("%s out of bounds for axis of size %d" % (what, n))
        i = core.EX.choose(i.e, what)
    elif isinstance(i, SReal) or isinstance(i, (float, Fraction)):
        raise SymFault("non-integer index", "type")
    elif isinstance(i, Poison):
        i._f()
    else:
        i = int(i)
        if not (-n <= i < n):
            raise OOBFault("index %d out of bounds for axis of size %d" % (i, n))
    return i + n if i < 0 else i


def _cint(v, what="size"):
    if isinstance(v, SInt):
        return core.EX.choose(v.e, what)
    if isinstance(v, SBool):
        return 1 if v else 0
    if isinstance(v, SReal):
        t = strunc(v)
        return _cint(t, what)
    if isinstance(v, (float, Fraction)):
        return int(v)
    if isinstance(v, Poison):
        v._f()
    return int(v)


def _cstrides(shape):
    st = []
    acc = 1
    for s in reversed(shape):
        st.append(acc)
        acc *= s
    return tuple(reversed(st))


def _size(shape):
    n = 1
    for s in shape:
        n *= s
    return n


class ndarray:
    __slots__ = ("buf", "off", "shape", "strides", "dtype")
    __array_priority__ = 100

    def __init__(self, buf, off=None, shape=None, strides=None, dtype=None):
        if off is None:
            # np.ndarray(shape): uninitialised memory, like np.empty
            e = empty(buf, dtype if dtype is not None else float64)
            buf, off, shape, strides, dtype = e.buf, e.off, e.shape, e.strides, e.dtype
        self.buf = buf
        self.off = off
        self.shape = tuple(shape)
        self.strides = tuple(strides)
        self.dtype = dtype

    # -- construction helpers
    @staticmethod
    def _from_flat(vals, shape, dtype, cast=True):
        if cast:
            vals = [dtype.cast(v) for v in vals]
        return ndarray(Buf(vals), 0, shape, _cstrides(shape), dtype)

    @property
    def ndim(self):
        return len(self.shape)

    @property
    def size(self):
        return _size(self.shape)

    @property
    def T(self):
        return ndarray(self.buf, self.off, self.shape[::-1], self.strides[::-1], self.dtype)

    def transpose(self, *a):
        return self.T

    @property
    def flat(self):
        return iter(self._flat())

    @property
    def nbytes(self):
        return self.size * self.dtype.itemsize

    @property
    def itemsize(self):
        return self.dtype.itemsize

    @property
    def base(self):
        return None

    @property
    def flags(self):
        class F:
            c_contiguous = True
            writeable = True
        return F()

    def __len__(self):
        if not self.shape:
            raise TypeError("len() of unsized object")
        return self.shape[0]

    def _positions(self):
        if not self.shape:
            return [self.off]
        if len(self.shape) == 1:
            o, s = self.off, self.strides[0]
            return [o + i * s for i in range(self.shape[0])]
        out = []
        for idx in _it.product(*[range(s) for s in self.shape]):
            p = self.off
            for i, st in zip(idx, self.strides):
                p += i * st
            out.append(p)
        return out

    def _flat(self):
        d = self.buf.data
        if MON.race is not None:
            for p in self._positions():
                _on_read(self.buf, p)
        return [d[p] for p in self._positions()]

    def flush(self):
        pass

    def tolist(self):
        if not self.shape:
            return self._flat()[0]
        if len(self.shape) == 1:
            return self._flat()
        return [self[i].tolist() for i in range(self.shape[0])]

    def __iter__(self):
        if not self.shape:
            raise TypeError("iteration over a 0-d array")
        if len(self.shape) == 1:
            return iter(self._flat())
        return iter([self[i] for i in range(self.shape[0])])

    def item(self):
        return self._flat()[0]

    def _concretize(self, model):
        from ..values import concretize_struct
        return concretize_struct(self.tolist(), model)

    # -- indexing
    def _index(self, key):
        """returns ('view', ndarray) or ('elem', pos) or ('fancy', positions, shape)"""
        if not isinstance(key, tuple):
            key = (key,)
        # expand ellipsis
        if any(k is Ellipsis for k in key):
            i = [j for j, k in enumerate(key) if k is Ellipsis][0]
            nreal = len([k for k in key if k is not None and k is not Ellipsis])
            key = key[:i] + (slice(None),) * (len(self.shape) - nreal) + key[i + 1:]
        nreal = len([k for k in key if k is not None])
        if nreal > len(self.shape):
            raise IndexError("too many indices for array")
        # a single boolean mask with the full shape
        if len(key) == 1 and isinstance(key[0], ndarray) and key[0].dtype.kind == "b" and key[0].ndim == self.ndim and self.ndim > 1:
            m = key[0]
            if m.shape != self.shape:
                raise IndexError("boolean index did not match indexed array")
            pos = [p for p, f in zip(self._positions(), m._flat()) if _truth(f)]
            return ("fancy", pos, (len(pos),))
        off = self.off
        shape = []
        strides = []
        fancy = None  # (axis_in_result, list of positions offsets, result len)
        dim = 0
        for k in key:
            if k is None:
                shape.append(1)
                strides.append(0)
                continue
            n = self.shape[dim]
            st = self.strides[dim]
            if isinstance(k, slice):
                a, b, s = _norm_slice(k, n)
                ln = builtins.max(0, (b - a + (s - (1 if s > 0 else -1))) // s)
                off += a * st
                shape.append(ln)
                strides.append(st * s)
            elif isinstance(k, (list, ndarray, tuple)) and not isinstance(k, (SInt,)):
                ka = k if isinstance(k, ndarray) else array(k)
                if ka.ndim == 0:
                    i = _cidx(ka.item(), n)
                    off += i * st
                else:
                    if fancy is not None:
                        raise Unmodelled("two fancy indices")
                    if ka.ndim != 1:
                        raise Unmodelled("n-d fancy index")
                    if ka.dtype.kind == "b":
                        if ka.shape[0] != n:
                            raise IndexError("boolean index did not match indexed array along axis %d; size of axis is %d but size of corresponding boolean axis is %d" % (dim, n, ka.shape[0]))
                        sel = [i for i, f in enumerate(ka._flat()) if _truth(f)]
                    else:
                        sel = [_cidx(i, n, "fancy index") for i in ka._flat()]
                    fancy = (len(shape), [i * st for i in sel])
                    shape.append(len(sel))
                    strides.append(None)
            else:
                i = _cidx(k, n)
                off += i * st
            dim += 1
        for d in range(dim, len(self.shape)):
            shape.append(self.shape[d])
            strides.append(self.strides[d])
        if fancy is None:
            if not shape:
                return ("elem", off)
            return ("view", ndarray(self.buf, off, shape, strides, self.dtype))
        ax, offs = fancy
        pos = []
        other = [(s, st) for j, (s, st) in enumerate(zip(shape, strides)) if j != ax]
        ranges = [range(s) for s in shape]
        for idx in _it.product(*ranges):
            p = off
            for j, i in enumerate(idx):
                if j == ax:
                    p += offs[i]
                else:
                    p += i * strides[j]
            pos.append(p)
        return ("fancy", pos, tuple(shape))

    def __getitem__(self, key):
        r = self._index(key)
        if r[0] == "elem":
            if MON.race is not None:
                _on_read(self.buf, r[1])
            return self.buf.data[r[1]]
        if r[0] == "view":
            return r[1]
        _, pos, shape = r
        d = self.buf.data
        if MON.race is not None:
            for p in pos:
                _on_read(self.buf, p)
        return ndarray._from_flat([d[p] for p in pos], shape, self.dtype, cast=False)

    def __setitem__(self, key, v):
        r = self._index(key)
        cast = self.dtype.cast
        d = self.buf.data
        if r[0] == "elem":
            if isinstance(v, ndarray):
                if v.size != 1:
                    raise ValueError("setting an array element with a sequence.")
                v = v.item()
            _on_write(self.buf, r[1])
            d[r[1]] = cast(v)
            return
        if r[0] == "view":
            pos = r[1]._positions()
            shape = r[1].shape
        else:
            pos, shape = r[1], r[2]
        if isinstance(v, (list, tuple)):
            v = array(v)
        if isinstance(v, ndarray):
            try:
                vb = broadcast_to(v, shape)
            except ValueError:
                raise ValueError("could not broadcast input array from shape %s into shape %s" % (v.shape, tuple(shape)))
            vals = vb._flat()
            for p, x in zip(pos, vals):
                _on_write(self.buf, p)
                d[p] = cast(x)
        else:
            x = cast(v)
            for p in pos:
                _on_write(self.buf, p)
                d[p] = x

    # -- elementwise
    def _binop(self, o, f, kind=None, rev=False):
        if isinstance(o, (list, tuple)):
            o = array(o)
        if isinstance(o, ndarray):
            shape = _bshape(self.shape, o.shape)
            a = broadcast_to(self, shape)._flat()
            b = broadcast_to(o, shape)._flat()
            dt = _promote(self.dtype, o.dtype)
        else:
            if not (isinstance(o, (int, float, Fraction, SInt, SReal, SBool, Poison, NaN)) or _is_sfloat(o)):
                return NotImplemented
            shape = self.shape
            a = self._flat()
            if isinstance(o, float) and not (o != o or o in (INF, -INF)):
                o = Q(o)
            b = [o] * len(a)
            wd = _scalar_weak_dtype(o)
            if self.dtype.kind == "f" or wd.kind == "b":
                dt = self.dtype
            elif wd.kind == "f":
                dt = float64
            elif self.dtype.kind == "b":
                dt = int64
            else:
                dt = self.dtype
        if rev:
            a, b = b, a
        if kind == "cmp":
            dt = bool_
        elif kind == "div":
            dt = dt if dt.kind == "f" else float64
        vals = [f(x, y) for x, y in zip(a, b)]
        return ndarray._from_flat(vals, shape, dt, cast=(kind != "cmp" and dt.kind != "O"))

    def __add__(s, o): return s._binop(o, _add)
    def __radd__(s, o): return s._binop(o, _add, rev=True)
    def __sub__(s, o): return s._binop(o, _sub)
    def __rsub__(s, o): return s._binop(o, _sub, rev=True)
    def __mul__(s, o): return s._binop(o, _mul)
    def __rmul__(s, o): return s._binop(o, _mul, rev=True)
    def __truediv__(s, o): return s._binop(o, _adiv, "div")
    def __rtruediv__(s, o): return s._binop(o, _adiv, "div", rev=True)
    def __floordiv__(s, o): return s._binop(o, _afloordiv)
    def __rfloordiv__(s, o): return s._binop(o, _afloordiv, rev=True)
    def __mod__(s, o): return s._binop(o, _amod)
    def __pow__(s, o): return s._binop(o, _apow)
    def __rpow__(s, o): return s._binop(o, _apow, rev=True)
    def __lt__(s, o): return s._binop(o, lambda a, b: a < b, "cmp")
    def __le__(s, o): return s._binop(o, lambda a, b: a <= b, "cmp")
    def __gt__(s, o): return s._binop(o, lambda a, b: a > b, "cmp")
    def __ge__(s, o): return s._binop(o, lambda a, b: a >= b, "cmp")
    def __eq__(s, o):
        if o is None or isinstance(o, str):
            return False
        return s._binop(o, lambda a, b: a == b, "cmp")
    def __ne__(s, o):
        if o is None or isinstance(o, str):
            return True
        return s._binop(o, lambda a, b: a != b, "cmp")
    def __xor__(s, o): return s._binop(o, _bxor)
    def __rxor__(s, o): return s._binop(o, _bxor, rev=True)
    def __ixor__(s, o): return s._inplace(s ^ o)
    def __and__(s, o): return s._binop(o, _band)
    def __rand__(s, o): return s._binop(o, _band, rev=True)
    def __or__(s, o): return s._binop(o, _bor)
    def __ror__(s, o): return s._binop(o, _bor, rev=True)
    def __invert__(s): return s._unop(snot if s.dtype.kind == "b" else (lambda a: -a - 1))
    def __neg__(s): return s._unop(lambda a: -a)
    def __pos__(s): return s
    def __abs__(s): return s._unop(builtins.abs)
    def __matmul__(s, o): return dot(s, o)
    def __rmatmul__(s, o): return dot(o, s)
    __hash__ = None

    def _unop(self, f, dt=None):
        return ndarray._from_flat([f(x) for x in self._flat()], self.shape, dt or self.dtype, cast=False)

    def _inplace(self, r):
        if r is NotImplemented:
            raise TypeError("unsupported in-place operand")
        if r.shape != self.shape:
            raise ValueError("non-broadcastable output operand with shape %s doesn't match the broadcast shape %s" % (self.shape, r.shape))
        if self.dtype.kind in "iu" and r.dtype.kind == "f":
            raise TypeError("Cannot cast ufunc output from dtype('float64') to dtype('%s') with casting rule 'same_kind'" % self.dtype.name)
        cast = self.dtype.cast
        d = self.buf.data
        for p, x in zip(self._positions(), r._flat()):
            _on_write(self.buf, p)
            d[p] = cast(x)
        return self

    def __iadd__(s, o): return s._inplace(s + o)
    def __isub__(s, o): return s._inplace(s - o)
    def __imul__(s, o): return s._inplace(s * o)
    def __itruediv__(s, o): return s._inplace(s / o)
    def __ifloordiv__(s, o): return s._inplace(s // o)
    def __ior__(s, o): return s._inplace(s | o)
    def __iand__(s, o): return s._inplace(s & o)

    def __bool__(self):
        if self.size != 1:
            raise ValueError("The truth value of an array with more than one element is ambiguous. Use a.any() or a.all()")
        return bool(self._flat()[0])

    def __index__(self):
        if self.size != 1:
            raise TypeError("only integer scalar arrays can be converted to a scalar index")
        return _cint(self._flat()[0])

    def __int__(self):
        return self.__index__()

    def __float__(self):
        return float(self._flat()[0])

    def __repr__(self):
        return "sym.array(%r, dtype=%s)" % (self.tolist(), self.dtype.name)

    # -- methods
    def astype(self, dt, copy=True):
        dt = _dt(dt)
        return ndarray._from_flat(self._flat(), self.shape, dt)

    def copy(self, order=None):
        return ndarray._from_flat(self._flat(), self.shape, self.dtype, cast=False)

    def view(self, *a):
        return self

    def fill(self, v):
        self[...] = v

    def flatten(self):
        return ndarray._from_flat(self._flat(), (self.size,), self.dtype, cast=False)

    def ravel(self):
        if self.strides == _cstrides(self.shape):
            return ndarray(self.buf, self.off, (self.size,), (1,), self.dtype)
        return self.flatten()

    def reshape(self, *shape):
        if len(shape) == 1 and isinstance(shape[0], (tuple, list)):
            shape = tuple(shape[0])
        shape = [_cint(s) for s in shape]
        if -1 in shape:
            k = shape.index(-1)
            rest = _size([s for s in shape if s != -1])
            shape[k] = self.size // rest if rest else 0
        if _size(shape) != self.size:
            raise ValueError("cannot reshape array of size %d into shape %s" % (self.size, tuple(shape)))
        if self.strides == _cstrides(self.shape):
            return ndarray(self.buf, self.off, shape, _cstrides(shape), self.dtype)
        return ndarray._from_flat(self._flat(), shape, self.dtype, cast=False)

    def squeeze(self, axis=None):
        sh = [(s, st) for s, st in zip(self.shape, self.strides) if s != 1]
        return ndarray(self.buf, self.off, [s for s, _ in sh], [st for _, st in sh], self.dtype)

    def sum(self, axis=None, dtype=None, keepdims=False):
        return sum(self, axis=axis, keepdims=keepdims)

    def mean(self, axis=None):
        return mean(self, axis=axis)

    def max(self, axis=None):
        return max(self, axis=axis)

    def min(self, axis=None):
        return min(self, axis=axis)

    def any(self, axis=None):
        return any(self)

    def all(self, axis=None):
        return all(self)

    def argsort(self, axis=-1, kind=None):
        return argsort(self, kind=kind)

    def argmax(self, axis=None):
        return argmax(self)

    def argmin(self, axis=None):
        return argmin(self)

    def cumsum(self, axis=None):
        return cumsum(self)

    def sort(self, axis=-1, kind=None):
        vals = _sorted_vals(self._flat())
        if self.ndim != 1:
            raise Unmodelled("n-d sort")
        self[:] = ndarray._from_flat(vals, self.shape, self.dtype, cast=False)

    def dot(self, o):
        return dot(self, o)

    def nonzero(self):
        return nonzero(self)

    def round(self, decimals=0):
        return round(self, decimals)

    def clip(self, lo, hi):
        return clip(self, lo, hi)

    def tobytes(self):
        raise Unmodelled("tobytes")


def _truth(f):
    if isinstance(f, (SBool, SInt, SReal)):
        return bool(f)  # forks
    if isinstance(f, Poison):
        f._f()
    return bool(f)


def _norm_slice(k, n):
    def c(v):
        if v is None:
            return None
        if isinstance(v, ndarray):
            v = v.item()
        if is_sym(v):
            # clamp symbolically before enumerating, so that only in-range values are enumerated
            if isinstance(v, SReal):
                raise SymFault("non-integer slice bound", "type")
            if v < -n:
                return -n - 1
            if v > n:
                return n + 1
            return core.EX.choose(v.e, "slice bound")
        if isinstance(v, Poison):
            v._f()
        if isinstance(v, (float, Fraction)):
            raise TypeError("slice indices must be integers")
        return int(v)
    step = c(k.step)
    if step is None:
        step = 1
    if step == 0:
        raise ValueError("slice step cannot be zero")
    a, b, s = slice(c(k.start), c(k.stop), step).indices(n)
    return a, b, s


def _bshape(a, b):
    out = []
    for i in range(1, builtins.max(len(a), len(b)) + 1):
        x = a[-i] if i <= len(a) else 1
        y = b[-i] if i <= len(b) else 1
        if x == y or y == 1:
            out.append(x)
        elif x == 1:
            out.append(y)
        else:
            raise ValueError("operands could not be broadcast together with shapes %s %s" % (a, b))
    return tuple(reversed(out))


def broadcast_to(a, shape):
    a = _A(a)
    shape = tuple(shape)
    if a.shape == shape:
        return a
    if len(a.shape) > len(shape):
        raise ValueError("cannot broadcast %s to %s" % (a.shape, shape))
    pad = len(shape) - len(a.shape)
    st = []
    for i, s in enumerate(shape):
        if i < pad:
            st.append(0)
        else:
            x = a.shape[i - pad]
            if x == s:
                st.append(a.strides[i - pad])
            elif x == 1:
                st.append(0)
            else:
                raise ValueError("cannot broadcast %s to %s" % (a.shape, shape))
    return ndarray(a.buf, a.off, shape, st, a.dtype)


# element operations --------------------------------------------------------
def _add(a, b): return a + b
def _sub(a, b): return a - b
def _mul(a, b): return a * b


def _adiv(a, b):
    """array (IEEE-like) division: x/0 is inf/nan -> modelled as NaN marker, never an exception"""
    if isinstance(b, (Poison,)):
        b._f()
    if isinstance(a, (Poison,)):
        a._f()
    if isinstance(a, NaN) or isinstance(b, NaN):
        return NaN()
    if _is_sfloat(a) or _is_sfloat(b):
        return a / b
    if isinstance(b, float) and b in (INF, -INF):
        return Q(0)
    if is_sym(b):
        if b == 0:
            return NaN("division by zero")
    elif b == 0:
        return NaN("division by zero")
    if isinstance(a, float) and a in (INF, -INF):
        return a if b > 0 else -a
    return to_real(a) / b


def _afloordiv(a, b):
    if is_sym(b):
        if b == 0:
            return 0
    elif b == 0:
        return 0
    return a // b


def _amod(a, b):
    if is_sym(b):
        if b == 0:
            return 0
    elif b == 0:
        return 0
    return a % b


def _apow(a, b):
    if isinstance(a, NaN) or isinstance(b, NaN):
        return NaN("pow of NaN")
    if isinstance(b, bool):
        b = int(b)
    if isinstance(b, Fraction) and b.denominator == 1:
        b = int(b)
    if isinstance(b, int) and 0 <= b <= 12:
        r = 1 if isinstance(a, (int, SInt)) and not isinstance(a, bool) else Q(1)
        for _ in range(b):
            r = r * a
        return r
    if isinstance(b, int) and -12 <= b < 0:
        return _adiv(1, _apow(a, -b))
    if isinstance(b, (float, Fraction)) and b == Fraction(1, 2):
        return ssqrt(a)
    return upow(a, b)


def _bxor(a, b):
    if isinstance(a, (bool, SBool)) and isinstance(b, (bool, SBool)):
        return sor(sand(a, snot(b)), sand(snot(a), b))
    if isinstance(a, int) and isinstance(b, int):
        return a ^ b
    # 0/1 indicator flipped by 1 (the only symbolic use in the repository: LabelBinarizer output ^ 1)
    if isinstance(b, int) and b == 1 and isinstance(a, SInt):
        if not bool(sand(a >= 0, a <= 1)):
            raise Unmodelled("xor of a symbolic integer outside {0, 1}")
        return 1 - a
    if isinstance(b, int) and b == 0:
        return a
    raise Unmodelled("bitwise xor on symbolic integers")


def _band(a, b):
    if isinstance(a, (bool, SBool)) and isinstance(b, (bool, SBool)):
        return sand(a, b)
    raise Unmodelled("bitwise and on integers")


def _bor(a, b):
    if isinstance(a, (bool, SBool)) and isinstance(b, (bool, SBool)):
        return sor(a, b)
    raise Unmodelled("bitwise or on integers")


# ------------------------------------------------------------------ creation
def _A(x, dtype=None):
    if isinstance(x, ndarray):
        return x if dtype is None or dtype == x.dtype else x.astype(dtype)
    return array(x, dtype=dtype)


def _nested(x):
    """-> (flat values, shape)"""
    if isinstance(x, ndarray):
        return x._flat(), x.shape
    if isinstance(x, (list, tuple)) or type(x).__name__ in ("List", "range", "SymList"):
        x = list(x)
        if not x:
            return [], (0,)
        subs = [_nested(e) for e in x]
        sh = subs[0][1]
        for _, s in subs:
            if s != sh:
                raise ValueError("setting an array element with a sequence. The requested array has an inhomogeneous shape")
        flat = []
        for f, _ in subs:
            flat.extend(f)
        return flat, (len(x),) + sh
    if hasattr(x, "__iter__") and not isinstance(x, (str, bytes, dict)) and type(x).__name__ != "SymStr":
        return _nested(list(x))
    return [x], ()          # scalars; strings (python or symbolic) are array elements, not sequences


def array(x, dtype=None, copy=True, ndmin=0):
    dt = _dt(dtype)
    if isinstance(x, ndarray):
        r = x.copy() if dt is None or dt == x.dtype else x.astype(dt)
        return r
    flat, shape = _nested(x)
    if dt is None:
        if isinstance(x, (list, tuple)) and x and builtins.all(isinstance(e, ndarray) for e in x):
            dt = x[0].dtype
            for e in x[1:]:
                dt = _promote(dt, e.dtype)
        else:
            dt = _infer_dtype(flat)
    return ndarray._from_flat(flat, shape, dt)


def asarray(x, dtype=None):
    if isinstance(x, ndarray) and (dtype is None or _dt(dtype) == x.dtype):
        return x
    return array(x, dtype=dtype)


ascontiguousarray = asarray
asanyarray = asarray


def _shape(s):
    if isinstance(s, (tuple, list)):
        sh = tuple(_cint(v) for v in s)
    else:
        sh = (_cint(s),)
    for v in sh:
        if v < 0:
            raise SymFault("negative dimensions are not allowed", "negdim")
    return sh


def zeros(shape, dtype=float64, order=None):
    dt = _dt(dtype)
    sh = _shape(shape)
    z = Q(0) if dt.kind == "f" else (False if dt.kind == "b" else 0)
    return ndarray(Buf([z] * _size(sh)), 0, sh, _cstrides(sh), dt)


def ones(shape, dtype=float64):
    dt = _dt(dtype)
    sh = _shape(shape)
    z = Q(1) if dt.kind == "f" else (True if dt.kind == "b" else 1)
    return ndarray(Buf([z] * _size(sh)), 0, sh, _cstrides(sh), dt)


def empty(shape, dtype=float64):
    dt = _dt(dtype)
    sh = _shape(shape)
    return ndarray(Buf([Poison("np.empty") for _ in range(_size(sh))]), 0, sh, _cstrides(sh), dt)


def full(shape, v, dtype=None):
    sh = _shape(shape)
    dt = _dt(dtype) or _infer_dtype([v])
    return ndarray._from_flat([v] * _size(sh), sh, dt)


def zeros_like(a, dtype=None):
    a = _A(a)
    return zeros(a.shape, dtype or a.dtype)


def ones_like(a, dtype=None):
    a = _A(a)
    return ones(a.shape, dtype or a.dtype)


def empty_like(a, dtype=None):
    a = _A(a)
    return empty(a.shape, dtype or a.dtype)


def full_like(a, v, dtype=None):
    a = _A(a)
    return full(a.shape, v, dtype or a.dtype)


def arange(a, b=None, step=1, dtype=None):
    if b is None:
        a, b = 0, a
    if builtins.any(isinstance(v, (float, Fraction, SReal)) for v in (a, b, step)):
        raise Unmodelled("float arange")
    a, b, step = _cint(a), _cint(b), _cint(step)
    return ndarray._from_flat(list(range(a, b, step)), (len(range(a, b, step)),), _dt(dtype) or int64)


def linspace(a, b, n=50):
    n = _cint(n)
    if n == 1:
        return array([to_real(a)])
    return array([to_real(a) + (to_real(b) - to_real(a)) * Q(i, n - 1) for i in range(n)], dtype=float64)


def eye(n, dtype=float64):
    n = _cint(n)
    r = zeros((n, n), dtype)
    for i in range(n):
        r[i, i] = 1
    return r


def diag(v):
    v = _A(v)
    if v.ndim == 1:
        n = v.shape[0]
        r = zeros((n, n), v.dtype)
        for i in range(n):
            r[i, i] = v[i]
        return r
    n = builtins.min(v.shape)
    return array([v[i, i] for i in range(n)], dtype=v.dtype)


def repeat(v, n, axis=None):
    if isinstance(v, ndarray) and v.ndim >= 1:
        out = []
        if isinstance(n, ndarray):
            ns = [_cint(k) for k in n._flat()]
        else:
            ns = [_cint(n)] * v.size
        for x, k in zip(v._flat(), ns):
            out.extend([x] * k)
        return ndarray._from_flat(out, (len(out),), v.dtype, cast=False)
    if isinstance(v, ndarray):
        dt = v.dtype
        v = v.item()
    else:
        dt = _infer_dtype([v])
    n = _cint(n)
    if n < 0:
        raise ValueError("negative dimensions are not allowed")
    return ndarray._from_flat([v] * n, (n,), dt)


def concatenate(arrs, axis=0):
    arrs = [_A(a) for a in arrs]
    if not arrs:
        raise ValueError("need at least one array to concatenate")
    dt = arrs[0].dtype
    for a in arrs[1:]:
        dt = _promote(dt, a.dtype)
    nd = arrs[0].ndim
    for a in arrs:
        if a.ndim != nd:
            raise ValueError("all the input array dimensions except for the concatenation axis must match exactly")
    if nd == 1:
        out = []
        for a in arrs:
            out.extend(a._flat())
        return ndarray._from_flat(out, (len(out),), dt)
    if nd == 2:
        if axis == 0:
            w = arrs[0].shape[1]
            out = []
            n = 0
            for a in arrs:
                if a.shape[1] != w:
                    raise ValueError("all the input array dimensions except for the concatenation axis must match exactly")
                out.extend(a._flat())
                n += a.shape[0]
            return ndarray._from_flat(out, (n, w), dt)
        h = arrs[0].shape[0]
        rows = [[] for _ in range(h)]
        for a in arrs:
            if a.shape[0] != h:
                raise ValueError("all the input array dimensions except for the concatenation axis must match exactly")
            for i in range(h):
                rows[i].extend(a[i]._flat())
        w = len(rows[0]) if rows else builtins.sum(a.shape[1] for a in arrs)
        return ndarray._from_flat([x for r in rows for x in r], (h, w), dt)
    raise Unmodelled("concatenate nd>2")


def hstack(arrs):
    arrs = [_A(a) for a in arrs]
    arrs = [a.reshape(1) if a.ndim == 0 else a for a in arrs]
    if arrs and arrs[0].ndim == 1:
        return concatenate(arrs, 0)
    return concatenate(arrs, 1)


def vstack(arrs):
    arrs = [_A(a) for a in arrs]
    arrs = [a.reshape(1, a.shape[0]) if a.ndim == 1 else (a.reshape(1, 1) if a.ndim == 0 else a) for a in arrs]
    return concatenate(arrs, 0)


def append(a, b, axis=None):
    a = _A(a)
    b = _A(b) if isinstance(b, (ndarray, list, tuple)) else array([b])
    return concatenate([a.ravel(), b.ravel()])


def flipud(a):
    a = _A(a)
    return a[::-1]


def squeeze(a, axis=None):
    return _A(a).squeeze()


def ravel(a):
    return _A(a).ravel()


def atleast_2d(a):
    a = _A(a)
    if a.ndim == 1:
        return a.reshape(1, a.shape[0])
    return a


def isscalar(x):
    return isinstance(x, (int, float, Fraction, SInt, SReal, SBool, str))


def shape(a):
    return _A(a).shape


def copy(a):
    return _A(a).copy()


# ---------------------------------------------------------------- reductions
def _fold(vals, f, init):
    t = init
    for v in vals:
        t = f(t, v)
    return t


def _axis_apply(a, axis, fn):
    """apply fn(list)->scalar along axis of 2-d array"""
    if a.ndim == 1:
        if axis not in (0, -1):
            raise ValueError("axis out of bounds")
        return fn(a._flat())
    if a.ndim != 2:
        raise Unmodelled("axis reduction on nd>2")
    if axis in (0, -2):
        return [fn(a[:, j]._flat()) for j in range(a.shape[1])]
    return [fn(a[i]._flat()) for i in range(a.shape[0])]


def _sumlist(vals, dt=None):
    if not vals:
        return Q(0) if dt is None or dt.kind == "f" else 0
    t = vals[0]
    if isinstance(t, (bool, SBool)):
        t = t + 0
    for v in vals[1:]:
        t = t + v
    return t


def sum(a, axis=None, dtype=None, keepdims=False):
    if not isinstance(a, ndarray):
        if isinstance(a, (list, tuple)) and a and isinstance(a[0], ndarray) and axis in (None, 0) and False:
            pass
        a = _A(a)
    dt = a.dtype if a.dtype.kind == "f" else int64
    if axis is None:
        return _sumlist(a._flat(), a.dtype)
    r = _axis_apply(a, axis, lambda l: _sumlist(l, a.dtype))
    if a.ndim == 1:
        return r
    out = ndarray._from_flat(r, (len(r),), dt)
    if keepdims:
        return out.reshape((1, len(r)) if axis in (0, -2) else (len(r), 1))
    return out


def mean(a, axis=None):
    a = _A(a)
    if axis is None:
        if a.size == 0:
            return NaN("mean of empty")
        return to_real(_sumlist(a._flat())) / a.size
    n = a.shape[axis]
    s = sum(a, axis=axis)
    return s / n


def prod(a, axis=None):
    a = _A(a)
    t = 1
    for v in a._flat():
        t = t * v
    return t


def _maxlist(vals):
    if not vals:
        raise ValueError("zero-size array to reduction operation maximum which has no identity")
    t = vals[0]
    for v in vals[1:]:
        t = smax(t, v)
    return t


def _minlist(vals):
    if not vals:
        raise ValueError("zero-size array to reduction operation minimum which has no identity")
    t = vals[0]
    for v in vals[1:]:
        t = smin(t, v)
    return t


def max(a, axis=None):
    a = _A(a)
    if axis is None:
        return _maxlist(a._flat())
    r = _axis_apply(a, axis, _maxlist)
    return r if a.ndim == 1 else ndarray._from_flat(r, (len(r),), a.dtype)


def min(a, axis=None):
    a = _A(a)
    if axis is None:
        return _minlist(a._flat())
    r = _axis_apply(a, axis, _minlist)
    return r if a.ndim == 1 else ndarray._from_flat(r, (len(r),), a.dtype)


amax, amin = max, min


def _nanprop(f):
    """np.maximum / np.minimum propagate NaN"""
    def g(a, b):
        if isinstance(a, NaN) or (isinstance(a, float) and a != a):
            return a
        if isinstance(b, NaN) or (isinstance(b, float) and b != b):
            return b
        return f(a, b)
    return g


_amax, _amin = _nanprop(smax), _nanprop(smin)


def maximum(a, b):
    if isinstance(a, ndarray) or isinstance(b, ndarray):
        return _A(a)._binop(b, _amax) if isinstance(a, ndarray) else _A(b)._binop(a, _amax)
    return _amax(a, b)


def minimum(a, b):
    if isinstance(a, ndarray) or isinstance(b, ndarray):
        return _A(a)._binop(b, _amin) if isinstance(a, ndarray) else _A(b)._binop(a, _amin)
    return _amin(a, b)


def clip(a, lo, hi):
    return minimum(maximum(a, lo), hi)


def any(a, axis=None):
    a = _A(a)
    return sor(*[(v if isinstance(v, (bool, SBool)) else v != 0) for v in a._flat()])


def all(a, axis=None):
    a = _A(a)
    return sand(*[(v if isinstance(v, (bool, SBool)) else v != 0) for v in a._flat()])


def cumsum(a, axis=None):
    a = _A(a)
    out = []
    t = None
    for v in a._flat():
        t = v if t is None else t + v
        if isinstance(t, (bool, SBool)):
            t = t + 0
        out.append(t)
    return ndarray._from_flat(out, (len(out),), a.dtype if a.dtype.kind != "b" else int64)


def _lt(a, b):
    return bool(a < b)


def _sort_perm(vals):
    """stable insertion sort; comparisons fork.  returns permutation"""
    order = []
    for idx, v in enumerate(vals):
        j = len(order)
        while j > 0 and _lt(v, vals[order[j - 1]]):
            j -= 1
        order.insert(j, idx)
    return order


def _sorted_vals(vals):
    return [vals[i] for i in _sort_perm(vals)]


def argsort(a, axis=-1, kind=None):
    a = _A(a)
    if a.ndim != 1:
        raise Unmodelled("n-d argsort")
    return ndarray._from_flat(_sort_perm(a._flat()), a.shape, int64)


def sort(a, axis=-1, kind=None):
    a = _A(a)
    if a.ndim != 1:
        raise Unmodelled("n-d sort")
    return ndarray._from_flat(_sorted_vals(a._flat()), a.shape, a.dtype, cast=False)


def unique(a, return_counts=False, return_inverse=False, return_index=False):
    a = _A(a)
    vals = _sorted_vals(a.ravel()._flat())
    out, counts = [], []
    for v in vals:
        if out and bool(out[-1] == v):
            counts[-1] += 1
        else:
            out.append(v)
            counts.append(1)
    r = ndarray._from_flat(out, (len(out),), a.dtype, cast=False)
    if return_inverse or return_index:
        raise Unmodelled("unique(return_inverse/index)")
    if return_counts:
        return r, array(counts, dtype=int64)
    return r


def argmax(a, axis=None):
    a = _A(a)
    vals = a.ravel()._flat()
    if not vals:
        raise ValueError("attempt to get argmax of an empty sequence")
    best = 0
    for i in range(1, len(vals)):
        if _lt(vals[best], vals[i]):
            best = i
    return best


def argmin(a, axis=None):
    a = _A(a)
    vals = a.ravel()._flat()
    if not vals:
        raise ValueError("attempt to get argmin of an empty sequence")
    best = 0
    for i in range(1, len(vals)):
        if _lt(vals[i], vals[best]):
            best = i
    return best


def searchsorted(a, v, side="left"):
    a = _A(a)
    if isinstance(v, ndarray):
        return array([searchsorted(a, x, side) for x in v._flat()], dtype=int64)
    lo, hi = 0, a.shape[0]
    while lo < hi:
        mid = lo + ((hi - lo) >> 1)
        x = a[mid]
        if (x < v) if side == "left" else (x <= v):
            lo = mid + 1
        else:
            hi = mid
    return lo


def bincount(x, weights=None, minlength=0):
    x = _A(x, int64) if not isinstance(x, ndarray) else x
    if x.ndim != 1:
        raise ValueError("object too deep for desired array")
    if x.dtype.kind == "f":
        raise TypeError("Cannot cast array data from dtype('float64') to dtype('int64') according to the rule 'safe'")
    vals = []
    for v in x._flat():
        if is_sym(v):
            if v < 0:
                raise ValueError("'list' argument must have no negative elements")
            v = core.EX.choose(v.e, "bincount")
        elif v < 0:
            raise ValueError("'list' argument must have no negative elements")
        vals.append(v)
    n = builtins.max([_cint(minlength)] + [v + 1 for v in vals])
    if weights is None:
        out = [0] * n
        for v in vals:
            out[v] += 1
        return ndarray._from_flat(out, (n,), int64)
    out = [Q(0)] * n
    for v, w in zip(vals, _A(weights)._flat()):
        out[v] = out[v] + w
    return ndarray._from_flat(out, (n,), float64)


def nonzero(a):
    a = _A(a)
    if a.ndim != 1:
        raise Unmodelled("n-d nonzero")
    idx = [i for i, c in enumerate(a._flat()) if _truth(c if isinstance(c, (bool, SBool)) else c != 0)]
    return (ndarray._from_flat(idx, (len(idx),), int64),)


def where(cond, x=None, y=None):
    cond = _A(cond)
    if x is None:
        return nonzero(cond)
    shape = cond.shape
    xs = broadcast_to(_A(x), shape)._flat() if isinstance(x, (ndarray, list, tuple)) else [x] * cond.size
    ys = broadcast_to(_A(y), shape)._flat() if isinstance(y, (ndarray, list, tuple)) else [y] * cond.size
    out = [ite(c, a, b) if isinstance(c, SBool) and builtins.all(isinstance(t, (int, float, Fraction, SInt, SReal, SBool)) for t in (a, b))
           else (a if _truth(c) else b) for c, a, b in zip(cond._flat(), xs, ys)]
    return ndarray._from_flat(out, shape, _infer_dtype(out))


def isin(a, b):
    a = _A(a)
    bl = list(_A(b)._flat()) if not isinstance(b, (set, frozenset)) else list(b)
    return ndarray._from_flat([sor(*[x == y for y in bl]) for x in a._flat()], a.shape, bool_, cast=False)


def dot(a, b):
    a, b = _A(a), _A(b)
    if a.ndim == 1 and b.ndim == 1:
        if a.shape != b.shape:
            raise ValueError("shapes not aligned")
        return _sumlist([x * y for x, y in zip(a._flat(), b._flat())], _promote(a.dtype, b.dtype))
    if a.ndim == 2 and b.ndim == 1:
        if a.shape[1] != b.shape[0]:
            raise ValueError("shapes %s and %s not aligned" % (a.shape, b.shape))
        return array([dot(a[i], b) for i in range(a.shape[0])], dtype=_promote(a.dtype, b.dtype))
    if a.ndim == 1 and b.ndim == 2:
        if a.shape[0] != b.shape[0]:
            raise ValueError("shapes %s and %s not aligned" % (a.shape, b.shape))
        return array([dot(a, b[:, j]) for j in range(b.shape[1])], dtype=_promote(a.dtype, b.dtype))
    if a.ndim == 2 and b.ndim == 2:
        if a.shape[1] != b.shape[0]:
            raise ValueError("shapes %s and %s not aligned" % (a.shape, b.shape))
        vals = [dot(a[i], b[:, j]) for i in range(a.shape[0]) for j in range(b.shape[1])]
        return ndarray._from_flat(vals, (a.shape[0], b.shape[1]), _promote(a.dtype, b.dtype))
    raise Unmodelled("dot nd")


matmul = dot


def outer(a, b):
    a, b = _A(a), _A(b)
    return ndarray._from_flat([x * y for x in a._flat() for y in b._flat()], (a.size, b.size), _promote(a.dtype, b.dtype))


# ----------------------------------------------------------------- ufuncs
def _ufunc(f, float_result=True):
    def g(x, *rest, **kw):
        if isinstance(x, (list, tuple)):
            x = array(x)
        if isinstance(x, ndarray):
            dt = float64 if float_result and x.dtype.kind != "f" else x.dtype
            return ndarray._from_flat([f(v) for v in x._flat()], x.shape, dt, cast=False)
        return f(x)
    return g


def _rsqrt(v):
    if isinstance(v, Poison):
        v._f()
    if _is_sfloat(v):
        return v.sqrt()
    return ssqrt(v)


sqrt = _ufunc(_rsqrt)
log = _ufunc(lambda v: slog(v))
exp = _ufunc(lambda v: sexp(v))
log2 = _ufunc(lambda v: (float(_math.log2(v)) if v > 0 else -INF) if not is_sym(v) else upow(v, "log2"))
log10 = _ufunc(lambda v: _math.log10(v) if not is_sym(v) else upow(v, "log10"))


def _abs1(v):
    if isinstance(v, Poison):
        v._f()
    return builtins.abs(v)


abs = _ufunc(_abs1, float_result=False)
absolute = abs
fabs = abs


def _sign1(v):
    if is_sym(v):
        return ite(v > 0, 1, ite(v < 0, -1, 0))
    return (v > 0) - (v < 0)


sign = _ufunc(_sign1, float_result=False)


def _ceil1(v):
    r = sceil(v)
    return to_real(r)


def _floor1(v):
    return to_real(sfloor(v))


ceil = _ufunc(_ceil1)
floor = _ufunc(_floor1)


def isfinite(x):
    def f(v):
        if isinstance(v, NaN):
            return False
        if isinstance(v, float):
            return not (v != v or v in (INF, -INF))
        if isinstance(v, Poison):
            v._f()
        return True
    return _ufunc(f, False)(x) if not isinstance(x, ndarray) else ndarray._from_flat([f(v) for v in x._flat()], x.shape, bool_, cast=False)


def isnan(x):
    def f(v):
        if isinstance(v, NaN):
            return True
        if isinstance(v, float):
            return v != v
        return False
    return ndarray._from_flat([f(v) for v in x._flat()], x.shape, bool_, cast=False) if isinstance(x, ndarray) else f(x)


def round(x, decimals=0, out=None):
    if decimals != 0:
        raise Unmodelled("round decimals")
    if isinstance(x, ndarray):
        r = ndarray._from_flat([to_real(sround(v)) if x.dtype.kind == "f" else v for v in x._flat()], x.shape, x.dtype, cast=False)
        if out is not None:
            out[...] = r
            return out
        return r
    r = sround(x)
    return to_real(r) if isinstance(x, (float, Fraction, SReal)) else r


around = round
rint = round


def power(a, b):
    if isinstance(a, ndarray):
        return a ** b
    if isinstance(b, ndarray):
        return b.__rpow__(a)
    return _apow(a, b)


def divmod(a, b):
    return (a // b, a % b)


def median(a, axis=None):
    a = _A(a)
    vals = _sorted_vals(a.ravel()._flat())
    n = len(vals)
    if n == 0:
        return NaN("median of empty")
    if n % 2:
        return to_real(vals[n // 2])
    return (to_real(vals[n // 2 - 1]) + vals[n // 2]) / 2


def quantile(a, q, *args, **kw):
    raise Unmodelled("np.quantile")


def array_equal(a, b):
    a, b = _A(a), _A(b)
    if a.shape != b.shape:
        return False
    return sand(*[x == y for x, y in zip(a._flat(), b._flat())])


def allclose(a, b, rtol=1e-5, atol=1e-8):
    return array_equal(a, b)


def may_share_memory(a, b):
    return a.buf is b.buf


class _Random:
    def __getattr__(self, k):
        def f(*a, **kw):
            raise Unmodelled("np.random.%s" % k)
        return f


random = _Random()


class _Linalg:
    def norm(self, x, ord=None, axis=None):
        x = _A(x)
        if axis is None:
            return _rsqrt(_sumlist([v * v for v in x._flat()]))
        raise Unmodelled("linalg.norm axis")

    def svd(self, *a, **k):
        raise Unmodelled("np.linalg.svd")


linalg = _Linalg()


_MEMMAP_CONTENT = {}


def memmap(filename, dtype=float64, mode="r+", shape=None):
    """file-backed array on the file-system model: 'w+' creates the file, other modes need it to exist and see its content"""
    from .misc_shim import FS
    FS.open_memmap(filename, mode)
    if "w" in mode or filename not in _MEMMAP_CONTENT:
        _MEMMAP_CONTENT[filename] = zeros(shape, dtype)
    return _MEMMAP_CONTENT[filename]


def errstate(**kw):
    class C:
        def __enter__(self): return self
        def __exit__(self, *a): return False
    return C()


def issubclass_(a, b):
    return issubclass(a, b)


float_ = float64
int_ = int64


class _AddUfunc:
    """np.add with the unbuffered in-place form np.add.at(a, indices, b)"""

    def __call__(self, a, b):
        return _A(a) + b if isinstance(a, ndarray) or isinstance(b, ndarray) else a + b

    @staticmethod
    def at(a, indices, b):
        idx = list(_A(indices)._flat()) if not isinstance(indices, (int, SInt)) else [indices]
        bs = list(_A(b)._flat()) if isinstance(b, (ndarray, list, tuple)) else [b] * len(idx)
        for i, v in zip(idx, bs):
            a[i] = a[i] + v


add = _AddUfunc()
