"""symx.core -- re-execution symbolic executor on z3 (runs under python3-vt).

The code under test is ordinary Python (the repository's own source, loaded by
symx.loader).  Symbolic proxies (SInt/SReal/SBool) fork in __bool__; the
explorer re-executes the harness once per decision prefix (DFS).  A path ends
as ok / violation / fault / pruned / bound.
"""
import time
import z3
from fractions import Fraction


class PathAbort(BaseException):
    """infeasible path / assumption failed (BaseException: must not be caught by code under test)"""


class ShardSkip(PathAbort):
    """this subtree belongs to another worker of a sharded exploration"""


class BoundHit(BaseException):
    """a stated exploration bound (loop unrolling, path budget) was hit on this path"""


class Unmodelled(BaseException):
    """the code under test used something the environment model does not implement"""


class SymFault(Exception):
    """memory-safety style fault detected by the array model (kind in .kind)"""

    def __init__(self, msg, kind="fault"):
        Exception.__init__(self, msg)
        self.kind = kind


class OOBFault(SymFault, IndexError):
    def __init__(self, msg):
        SymFault.__init__(self, msg, "oob")


class PoisonFault(SymFault):
    def __init__(self, msg):
        SymFault.__init__(self, msg, "poison")


class PurityFault(SymFault):
    def __init__(self, msg):
        SymFault.__init__(self, msg, "purity")


class RaceFault(SymFault):
    def __init__(self, msg):
        SymFault.__init__(self, msg, "race")


EX = None  # current explorer


def cur():
    return EX


class Outcome:
    __slots__ = ("kind", "name", "inputs", "detail", "trace", "known")

    def __init__(self, kind, name, inputs=None, detail=None, trace=None, known=None):
        self.kind = kind          # 'violation' | 'fault'
        self.name = name
        self.inputs = inputs
        self.detail = detail
        self.trace = trace
        self.known = known

    def to_json(self):
        return {"kind": self.kind, "name": self.name, "inputs": self.inputs,
                "detail": self.detail, "known": self.known}


class Stats:
    def __init__(self):
        self.paths = 0
        self.ok = 0
        self.pruned = 0
        self.bound = 0
        self.unknown = 0
        self.decisions = 0
        self.queries = 0
        self.solver_time = 0.0
        self.concretizations = 0
        self.checks = 0
        self.reach = 0

    def add(self, o):
        for k, v in o.__dict__.items():
            setattr(self, k, getattr(self, k) + v)

    def to_json(self):
        d = dict(self.__dict__)
        d["solver_time"] = round(d["solver_time"], 3)
        return d


class Explorer:
    def __init__(self, max_paths=200000, query_timeout_ms=30000, max_decisions=4000, want_witness=False,
                 deadline=None, shard=None):
        self.shard = shard            # (index, count, depth): explore only subtrees whose first `depth` decisions hash to index
        self.max_paths = max_paths
        self.query_timeout_ms = query_timeout_ms
        self.max_decisions = max_decisions
        self.want_witness = want_witness
        self.deadline = deadline
        self.stats = Stats()
        self.outcomes = []
        self.witnesses = []
        self.samples = []
        self.complete = True
        self.notes = []

    # ---------------------------------------------------------------- solver
    def _check(self, *extra):
        t = time.time()
        self.stats.queries += 1
        r = self.solver.check(*extra)
        self.stats.solver_time += time.time() - t
        if r == z3.unknown:
            self.stats.unknown += 1
            self.path_unknown = True
        return r

    def _model(self):
        if self.model is None:
            r = self._check()
            if r != z3.sat:
                raise PathAbort()
            self.model = self.solver.model()
        return self.model

    def add(self, c):
        self.solver.add(c)
        self.model = None

    def _shard_check(self):
        """called after a decision has been appended to the trace"""
        sh = self.shard
        if sh is not None and len(self.trace) == sh[2]:
            import zlib
            if zlib.crc32(repr(self.trace).encode()) % sh[1] != sh[0]:
                raise ShardSkip()

    # ------------------------------------------------------------- decisions
    def branch(self, cond):
        """cond: z3 BoolRef -> python bool, forking when both sides are feasible."""
        if z3.is_true(cond):
            return True
        if z3.is_false(cond):
            return False
        i = self.pos
        self.pos += 1
        if i < len(self.prefix):
            d = self.prefix[i]
            self.solver.add(cond if d else z3.Not(cond))
            self.trace.append(d)
            self.model = None
            self._shard_check()
            return d
        if i >= self.max_decisions:
            raise BoundHit("max_decisions")
        self.stats.decisions += 1
        m = self._model()
        mv = z3.is_true(m.eval(cond, model_completion=True))
        other = z3.Not(cond) if mv else cond
        r = self._check(other)
        if r == z3.sat:
            # both feasible: explore model side first, schedule the other
            self.todo.append(self.trace + [not mv])
        d = mv
        self.solver.add(cond if d else z3.Not(cond))
        self.trace.append(d)
        self._shard_check()
        return d

    def choose(self, e, what=""):
        """case split on the value of an integer term; enumerates feasible values (solver-guided)."""
        e = z3.simplify(e)
        if z3.is_int_value(e):
            return e.as_long()
        i = self.pos
        self.pos += 1
        excluded = []
        if i < len(self.prefix):
            d = self.prefix[i]
            if d[0] == "val":
                self.solver.add(e == d[1])
                self.model = None
                self.trace.append(d)
                self._shard_check()
                return d[1]
            excluded = list(d[1])
            for v in excluded:
                self.solver.add(e != v)
            self.model = None
        if i >= self.max_decisions:
            raise BoundHit("max_decisions")
        self.stats.concretizations += 1
        if len(excluded) > 64:
            raise BoundHit("value split over more than 64 values (%s)" % what)
        m = self._model()
        v = m.eval(e, model_completion=True).as_long()
        # is there any other value?
        r = self._check(e != v)
        if r == z3.sat:
            self.todo.append(self.trace + [("not", excluded + [v])])
        self.trace.append(("val", v))
        self.solver.add(e == v)
        self._shard_check()
        return v

    def assume(self, cond):
        if isinstance(cond, bool):
            if not cond:
                raise PathAbort()
            return
        cond = getattr(cond, "e", cond)
        if z3.is_true(cond):
            return
        self.solver.add(cond)
        if self.model is not None and z3.is_true(self.model.eval(cond, model_completion=True)):
            return
        self.model = None
        if self._check() != z3.sat:
            raise PathAbort()

    # ------------------------------------------------------------ assertions
    def register_input(self, name, value):
        self.inputs[name] = value

    def eval_inputs(self, model):
        from .values import concretize_struct
        return {k: concretize_struct(v, model) for k, v in self.inputs.items()}

    def check(self, name, cond, known=None, detail=None):
        """assert cond on this path: query pc & !cond.  known: list of (finding_id, region_cond)."""
        self.stats.checks += 1
        if isinstance(cond, bool):
            if cond:
                return True
            neg = z3.BoolVal(True)
        else:
            cond = getattr(cond, "e", cond)
            if z3.is_true(cond):
                return True
            neg = z3.Not(cond)
        regions = []
        for fid, region in (known or []):
            region = getattr(region, "e", region)
            if isinstance(region, bool):
                region = z3.BoolVal(region)
            regions.append((fid, region))
        # outside every known region
        outside = [neg] + [z3.Not(r) for _, r in regions]
        r = self._check(*outside)
        ok = True
        if r == z3.sat:
            m = self.solver.model()
            self.outcomes.append(Outcome("violation", name, self.eval_inputs(m), detail, list(self.trace)))
            ok = False
        elif r == z3.unknown:
            self.notes.append("unknown on check %s" % name)
        for fid, region in regions:
            r = self._check(neg, region)
            if r == z3.sat:
                m = self.solver.model()
                self.outcomes.append(Outcome("violation", name, self.eval_inputs(m), detail, list(self.trace), known=fid))
                ok = False
        if not ok:
            # continue the path under the asserted condition (so later checks are independent)
            if not isinstance(cond, bool):
                self.solver.add(cond)
                self.model = None
                if self._check() != z3.sat:
                    raise PathAbort()
            else:
                raise PathAbort()
        return ok

    def reach(self, name="reach"):
        """vacuity witness: count that this point is reached on a feasible path"""
        self._model()
        self.stats.reach += 1

    def fault(self, exc, known=None):
        """record a fault (exception escaping the code under test) with a model of the path."""
        r = self._check()
        if r != z3.sat:
            return
        m = self.solver.model()
        name = "%s: %s" % (type(exc).__name__, str(exc)[:200])
        fid = None
        inputs = self.eval_inputs(m)
        if known:
            for k_id, pred in known:
                try:
                    if pred(exc, inputs):
                        fid = k_id
                        break
                except Exception:
                    pass
        self.outcomes.append(Outcome("fault", name, inputs, getattr(exc, "kind", type(exc).__name__),
                                     list(self.trace), known=fid))

    # ---------------------------------------------------------------- driver
    def explore(self, harness, *args, **kw):
        global EX
        prev = EX
        EX = self
        self.todo = [[]]
        try:
            while self.todo:
                if self.stats.paths >= self.max_paths or (self.deadline and time.time() > self.deadline):
                    self.complete = False
                    self.notes.append("path budget / deadline exhausted with %d prefixes pending" % len(self.todo))
                    break
                self.prefix = self.todo.pop()
                self.pos = 0
                self.trace = []
                self.solver = z3.Solver()
                self.solver.set("timeout", self.query_timeout_ms)
                self.model = None
                self.inputs = {}
                self.path_unknown = False
                self.fresh_counter = 0
                self.stats.paths += 1
                try:
                    out = harness(self, *args, **kw)
                    # feasible end state?
                    m = self._model()
                    if self.shard is not None and len(self.trace) < self.shard[2]:
                        import zlib
                        if zlib.crc32(repr(self.trace).encode()) % self.shard[1] != self.shard[0]:
                            raise ShardSkip()     # short path: counted by exactly one worker
                    self.stats.ok += 1
                    if self.want_witness and out is not None:
                        from .values import concretize_struct
                        self.witnesses.append({"inputs": self.eval_inputs(m),
                                               "outputs": concretize_struct(out, m)})
                    if len(self.samples) < 3:
                        self.samples.append(self.eval_inputs(m))
                except ShardSkip:
                    self.stats.paths -= 1
                except PathAbort:
                    self.stats.pruned += 1
                except BoundHit as e:
                    self.stats.bound += 1
                    self.complete = False
                    self.notes.append("bound hit: %s" % e)
                if self.path_unknown:
                    self.complete = False
        finally:
            EX = prev
        return self


# ------------------------------------------------------------------ helpers
def assume(c):
    EX.assume(c)


def check(name, cond, known=None, detail=None):
    return EX.check(name, cond, known=known, detail=detail)
