"""symx.core -- re-execution symbolic executor on z3 (runs under python3-vt).

The code under test is ordinary Python (the repository's own source, loaded by
symx.loader).  Symbolic proxies (SInt/SReal/SBool) fork in __bool__; the
explorer re-executes the harness once per decision prefix (DFS).  A path ends
as ok / violation / fault / pruned / bound.
"""
import time
import z3
from fractions import Fraction


class PathAbort(BaseException):
    """infeasible path / assumption failed (BaseException: must not be caught by code under test)"""


class ShardSkip(PathAbort):
    """this subtree belongs to another worker of a sharded exploration"""


class BoundHit(BaseException):
    """a stated exploration bound (loop unrolling, path budget) was hit on this path"""


class Unmodelled(BaseException):
    """the code under test used something the environment model does not implement"""


class SymFault(Exception):
    """memory-safety style fault detected by the array model (kind in .kind)"""

    def __init__(self, msg, kind="fault"):
        Exception.__init__(self, msg)
        self.kind = kind


class OOBFault(SymFault, IndexError):
    def __init__(self, msg):
        SymFault.__init__(self, msg, "oob")


class PoisonFault(SymFault):
    def __init__(self, msg):
        SymFault.__init__(self, msg, "poison")


class PurityFault(SymFault):
    def __init__(self, msg):
        SymFault.__init__(self, msg, "purity")


class RaceFault(SymFault):
    def __init__(self, msg):
        SymFault.__init__(self, msg, "race")


def is_memory_fault(exc):
    """the faults C10 is about: out-of-range index, read of uninitialised memory, use of a never-assigned variable"""
    if isinstance(exc, SymFault):
        return exc.kind in ("oob", "poison")
    return isinstance(exc, (IndexError, UnboundLocalError, NameError))


EX = None  # current explorer


def cur():
    return EX


class Outcome:
    __slots__ = ("kind", "name", "inputs", "detail", "trace", "known")

    def __init__(self, kind, name, inputs=None, detail=None, trace=None, known=None):
        self.kind = kind          # 'violation' | 'fault'
        self.name = name
        self.inputs = inputs
        self.detail = detail
        self.trace = trace
        self.known = known

    def to_json(self):
        return {"kind": self.kind, "name": self.name, "inputs": self.inputs,
                "detail": self.detail, "known": self.known}


class Stats:
    def __init__(self):
        self.paths = 0
        self.ok = 0
        self.pruned = 0
        self.bound = 0
        self.unknown = 0
        self.decisions = 0
        self.queries = 0
        self.solver_time = 0.0
        self.concretizations = 0
        self.checks = 0
        self.reach = 0
        self.fallbacks = 0
        self.witness_skipped = 0
        self.checks_skipped = 0
        self.bounds_checks = 0

    def add(self, o):
        for k, v in o.__dict__.items():
            setattr(self, k, getattr(self, k) + v)

    def to_json(self):
        d = dict(self.__dict__)
        d["solver_time"] = round(d["solver_time"], 3)
        return d


class Explorer:
    def __init__(self, max_paths=200000, query_timeout_ms=30000, max_decisions=4000, want_witness=False,
                 deadline=None, shard=None, fast_ms=None, ack_first=False, memory_only=False):
        self.memory_only = memory_only    # C10: only the array model's monitors count; functional assertions are skipped
        self.ack_first = ack_first
        self.fast_ms = fast_ms        # stage-1 time-out of a query before the Ackermannized fresh-solver fallback
        self.shard = shard            # (index, count, depth): explore only subtrees whose first `depth` decisions hash to index
        self.max_paths = max_paths
        self.query_timeout_ms = query_timeout_ms
        self.max_decisions = max_decisions
        self.want_witness = want_witness
        self.deadline = deadline
        self.stats = Stats()
        self.outcomes = []
        self.witnesses = []
        self.samples = []
        self.complete = True
        self.notes = []

    # ---------------------------------------------------------------- solver
    def _check(self, *extra, hard=False):
        """decide pc & extra.  Stage 1: the path's incremental solver (short time-out when fast_ms is set).
        Stage 2 (only after `unknown`): a fresh solver on the Ackermannized formula -- every application of an
        uninterpreted function replaced by a fresh constant plus the pairwise congruence constraints, which turns
        QF_UFNRA into QF_NRA -- first z3's default strategy, then nlsat.  The verdict of whichever stage decides is
        used; a model found in stage 2 is kept in self.last_model (untrusted for terms that mention the functions)."""
        t = time.time()
        self.stats.queries += 1
        self.last_model = None
        self.last_model_trusted = True
        if self.ack_first and hard:
            # assertion queries of UF + non-linear harnesses: the Ackermannized fresh solver first
            r = self._fallback(extra, retry_main=False)
            if r == z3.unknown:
                r = self.solver.check(*extra)
        else:
            if self.fast_ms:
                self.solver.set("timeout", self.fast_ms)
            r = self.solver.check(*extra)
            if self.fast_ms:
                self.solver.set("timeout", self.query_timeout_ms)
            if r == z3.unknown:
                r = self._fallback(extra)
        self.stats.solver_time += time.time() - t
        if r == z3.unknown:
            self.stats.unknown += 1
            self.path_unknown = True
        return r

    def _fallback(self, extra, retry_main=True):
        fs = list(self.solver.assertions()) + list(extra)
        try:
            g = ackermannize(fs)
        except Exception:
            g = fs
        self.stats.fallbacks = getattr(self.stats, "fallbacks", 0) + 1
        for mk in (lambda: z3.Solver(), lambda: z3.Tactic("qfnra-nlsat").solver()):
            s = mk()
            s.set("timeout", self.query_timeout_ms)
            s.add(g)
            try:
                r = s.check()
            except z3.Z3Exception:
                r = z3.unknown
            if r == z3.sat:
                self.last_model = s.model()
                self.last_model_trusted = g is fs
                return r
            if r == z3.unsat:
                return r
        if self.fast_ms and retry_main:
            # last resort: the incremental solver again with the full time-out
            r = self.solver.check(*extra)
            if r == z3.sat:
                self.last_model = self.solver.model()
                self.last_model_trusted = True
            return r
        return z3.unknown

    def lm(self):
        """model of the last sat query (from whichever stage decided it)"""
        if self.last_model is None:
            self.last_model = self.solver.model()
        return self.last_model

    def _model(self):
        if self.model is None:
            r = self._check()
            if r != z3.sat:
                raise PathAbort()
            self.model = self.lm()
            self.model_trusted = self.last_model_trusted
        return self.model

    def add(self, c):
        self.solver.add(c)
        self.model = None

    def _shard_check(self):
        """called after a decision has been appended to the trace"""
        sh = self.shard
        if sh is not None and len(self.trace) == sh[2]:
            import zlib
            if zlib.crc32(repr(self.trace).encode()) % sh[1] != sh[0]:
                raise ShardSkip()

    # ------------------------------------------------------------- decisions
    def branch(self, cond):
        """cond: z3 BoolRef -> python bool, forking when both sides are feasible."""
        if z3.is_true(cond):
            return True
        if z3.is_false(cond):
            return False
        i = self.pos
        self.pos += 1
        if i < len(self.prefix):
            d = self.prefix[i]
            self.solver.add(cond if d else z3.Not(cond))
            self.trace.append(d)
            self.model = None
            self._shard_check()
            return d
        if i >= self.max_decisions:
            raise BoundHit("max_decisions")
        self.stats.decisions += 1
        m = self._model()
        if self.model_trusted:
            mv = z3.is_true(m.eval(cond, model_completion=True))
        else:
            mv = self._check(cond) == z3.sat
            if not mv and self._check(z3.Not(cond)) != z3.sat:
                raise PathAbort()
        other = z3.Not(cond) if mv else cond
        r = self._check(other)
        if r == z3.sat:
            # both feasible: explore model side first, schedule the other
            self.todo.append(self.trace + [not mv])
        d = mv
        self.solver.add(cond if d else z3.Not(cond))
        self.trace.append(d)
        self._shard_check()
        return d

    def choose(self, e, what=""):
        """case split on the value of an integer term; enumerates feasible values (solver-guided)."""
        e = z3.simplify(e)
        if z3.is_int_value(e):
            return e.as_long()
        i = self.pos
        self.pos += 1
        excluded = []
        if i < len(self.prefix):
            d = self.prefix[i]
            if d[0] == "val":
                self.solver.add(e == d[1])
                self.model = None
                self.trace.append(d)
                self._shard_check()
                return d[1]
            excluded = list(d[1])
            for v in excluded:
                self.solver.add(e != v)
            self.model = None
        if i >= self.max_decisions:
            raise BoundHit("max_decisions")
        self.stats.concretizations += 1
        if len(excluded) > 64:
            raise BoundHit("value split over more than 64 values (%s)" % what)
        m = self._model()
        if not self.model_trusted:
            if self.solver.check() != z3.sat:
                raise BoundHit("no trusted model for a value split (%s)" % what)
            m = self.model = self.solver.model()
            self.model_trusted = True
        v = m.eval(e, model_completion=True).as_long()
        # is there any other value?
        r = self._check(e != v)
        if r == z3.sat:
            self.todo.append(self.trace + [("not", excluded + [v])])
        self.trace.append(("val", v))
        self.solver.add(e == v)
        self._shard_check()
        return v

    def assume(self, cond):
        if isinstance(cond, bool):
            if not cond:
                raise PathAbort()
            return
        cond = getattr(cond, "e", cond)
        if z3.is_true(cond):
            return
        self.solver.add(cond)
        if self.model is not None and self.model_trusted and z3.is_true(self.model.eval(cond, model_completion=True)):
            return
        self.model = None
        if self._check() != z3.sat:
            raise PathAbort()

    # ------------------------------------------------------------ assertions
    def register_input(self, name, value):
        self.inputs[name] = value

    def eval_inputs(self, model):
        from .values import concretize_struct
        return {k: concretize_struct(v, model) for k, v in self.inputs.items()}

    def check(self, name, cond, known=None, detail=None):
        """assert cond on this path: query pc & !cond.  known: list of (finding_id, region_cond)."""
        if self.memory_only:
            self.stats.checks_skipped = getattr(self.stats, "checks_skipped", 0) + 1
            return True
        self.stats.checks += 1
        if isinstance(cond, bool):
            if cond:
                return True
            neg = z3.BoolVal(True)
        else:
            cond = getattr(cond, "e", cond)
            if z3.is_true(cond):
                return True
            neg = z3.Not(cond)
        regions = []
        for fid, region in (known or []):
            region = getattr(region, "e", region)
            if isinstance(region, bool):
                region = z3.BoolVal(region)
            regions.append((fid, region))
        # outside every known region
        outside = [neg] + [z3.Not(r) for _, r in regions]
        r = self._check(*outside, hard=True)
        ok = True
        if r == z3.sat:
            m = self.lm()            # fetch before any further query invalidates it
            m = self._small_model(outside) or m
            self.outcomes.append(Outcome("violation", name, self.eval_inputs(m), detail, list(self.trace)))
            ok = False
        elif r == z3.unknown:
            self.notes.append("unknown on check %s" % name)
        for fid, region in regions:
            r = self._check(neg, region, hard=True)
            if r == z3.sat:
                m = self.lm()
                self.outcomes.append(Outcome("violation", name, self.eval_inputs(m), detail, list(self.trace), known=fid))
                ok = False
        if not ok:
            # continue the path under the asserted condition (so later checks are independent)
            if not isinstance(cond, bool):
                self.solver.add(cond)
                self.model = None
                if self._check() != z3.sat:
                    raise PathAbort()
            else:
                raise PathAbort()
        return ok

    def _small_model(self, extra):
        """prefer a counterexample whose registered integer inputs are small (easier to replay on the real build):
        re-ask the solver with the integers bounded by 64, then 4096; None when no such model exists / is found"""
        from .values import SInt
        ints = []

        def walk(v):
            if isinstance(v, SInt):
                ints.append(v.e)
            elif isinstance(v, (list, tuple)):
                for x in v:
                    walk(x)
            elif isinstance(v, dict):
                for x in v.values():
                    walk(x)
        for v in self.inputs.values():
            walk(v)
        ints = [e for e in ints if not z3.is_int_value(e)]
        if not ints:
            return None
        for bound in (64, 4096):
            small = [z3.And(e <= bound, e >= -bound) for e in ints]
            self.solver.set("timeout", 5000)
            try:
                r = self.solver.check(*(list(extra) + small))
            finally:
                self.solver.set("timeout", self.query_timeout_ms)
            if r == z3.sat:
                return self.solver.model()
        return None

    def reach(self, name="reach"):
        """vacuity witness: count that this point is reached on a feasible path"""
        self._model()
        self.stats.reach += 1

    def fault(self, exc, known=None):
        """record a fault (exception escaping the code under test) with a model of the path."""
        if self.memory_only and not is_memory_fault(exc):
            return
        self.stats.checks += 1
        r = self._check()
        if r != z3.sat:
            return
        m = self.lm()
        name = "%s: %s" % (type(exc).__name__, str(exc)[:200])
        fid = None
        inputs = self.eval_inputs(m)
        if known:
            for k_id, pred in known:
                try:
                    if pred(exc, inputs):
                        fid = k_id
                        break
                except Exception:
                    pass
        self.outcomes.append(Outcome("fault", name, inputs, getattr(exc, "kind", type(exc).__name__),
                                     list(self.trace), known=fid))

    # ---------------------------------------------------------------- driver
    def explore(self, harness, *args, **kw):
        global EX
        prev = EX
        EX = self
        self.todo = [[]]
        try:
            while self.todo:
                if self.stats.paths >= self.max_paths or (self.deadline and time.time() > self.deadline):
                    self.complete = False
                    self.notes.append("path budget / deadline exhausted with %d prefixes pending" % len(self.todo))
                    break
                self.prefix = self.todo.pop()
                self.pos = 0
                self.trace = []
                self.solver = z3.Solver()
                self.solver.set("timeout", self.query_timeout_ms)
                self.model = None
                self.model_trusted = True
                self.last_model = None
                self.last_model_trusted = True
                self.inputs = {}
                self.path_unknown = False
                self.fresh_counter = 0
                self.stats.paths += 1
                try:
                    out = harness(self, *args, **kw)
                    # feasible end state?
                    m = self._model()
                    if self.shard is not None and len(self.trace) < self.shard[2]:
                        import zlib
                        if zlib.crc32(repr(self.trace).encode()) % self.shard[1] != self.shard[0]:
                            raise ShardSkip()     # short path: counted by exactly one worker
                    self.stats.ok += 1
                    if self.want_witness and out is not None:
                        from .values import concretize_struct
                        try:
                            self.witnesses.append({"inputs": self.eval_inputs(m),
                                                   "outputs": concretize_struct(out, m)})
                        except (ArithmeticError, ValueError):
                            # the model cannot be evaluated numerically (e.g. a value of an uninterpreted function
                            # the true function does not take): no witness for this path
                            self.stats.witness_skipped = getattr(self.stats, "witness_skipped", 0) + 1
                    if len(self.samples) < 3:
                        self.samples.append(self.eval_inputs(m))
                except ShardSkip:
                    self.stats.paths -= 1
                except PathAbort:
                    self.stats.pruned += 1
                except BoundHit as e:
                    self.stats.bound += 1
                    self.complete = False
                    self.notes.append("bound hit: %s" % e)
                if self.path_unknown:
                    self.complete = False
        finally:
            EX = prev
        return self


# ------------------------------------------------------------------ helpers
def ackermannize(fs):
    """replace every application of an uninterpreted function by a fresh constant and add the pairwise
    congruence constraints (equal arguments -> equal values).  Equisatisfiable with the input."""
    apps = {}
    seen = set()
    stack = list(fs)
    while stack:
        u = stack.pop()
        if u.get_id() in seen:
            continue
        seen.add(u.get_id())
        if z3.is_app(u):
            if u.decl().kind() == z3.Z3_OP_UNINTERPRETED and u.num_args() > 0:
                apps[u.get_id()] = u
            stack.extend(u.children())
    if not apps:
        return fs
    lst = list(apps.values())
    pairs = [(a, z3.Const("ack!%s!%d" % (a.decl().name(), i), a.sort())) for i, a in enumerate(lst)]

    def sub(t):
        return z3.substitute(t, *pairs)
    out = [sub(f) for f in fs]
    for i in range(len(lst)):
        for j in range(i + 1, len(lst)):
            a, b = lst[i], lst[j]
            if a.decl().eq(b.decl()):
                eqs = [sub(x) == sub(y) for x, y in zip(a.children(), b.children())]
                out.append(z3.Implies(z3.And(*eqs), pairs[i][1] == pairs[j][1]))
    return out


def assume(c):
    EX.assume(c)


def check(name, cond, known=None, detail=None):
    return EX.check(name, cond, known=known, detail=detail)
