"""C19 replay drivers: the real SlidingWindowTransformer / SequentialDifferenceTransformer vs numpy."""
import numpy as np
from vectorizers.transformers.sliding_windows import SlidingWindowTransformer, SequentialDifferenceTransformer


def _sample(form, width):
    if form == "none":
        return None, list(range(width))
    if form.startswith("int"):
        n = int(form[3:])
        return n, list(range(0, width, n))
    if form.startswith("pair"):
        a, b = [int(v) for v in form[4:].split("_")]
        return (a, b), list(range(a, width, b))
    idx = [int(v) for v in form[4:].split("_") if v != ""]
    return idx, idx


def _run(r):
    p, inp = r["params"], r["inputs"]
    width, stride, pad, padv = inp["width"], inp["stride"], inp["pad"], inp["pad_value"]
    seq = np.array(inp["seq"], dtype=np.float64)
    arg, pos = _sample(p["sample_form"], width)
    k = len(pos)
    kern = p["kernel"]
    if kern == "none":
        karg, K = None, np.eye(k)
    elif kern == "average":
        karg, K = ["average"], np.full((1, k), 1.0 / k)
    elif kern.startswith("diff"):
        st, step, ds = [int(v) for v in kern[4:].split("_")]
        nd = -((-(k - st - step)) // ds)
        karg = [("differences", st, step, ds)]
        K = np.zeros((nd, k))
        for j in range(nd):
            K[j, st + j * ds] = -1
            K[j, st + j * ds + step] = 1
    else:
        w = np.array(inp["weights"], dtype=np.float64)
        karg, K = [("weight", w)], np.diag(w)
    est = SlidingWindowTransformer(window_width=width, window_stride=stride, window_sample=arg, kernels=karg,
                                   pad_width=pad, pad_value=padv)
    seq0 = seq.copy()
    res = est.fit([seq]).transform([seq])[0]
    s2 = seq.reshape(len(seq), -1)
    padded = np.vstack([np.full((pad, s2.shape[1]), padv), s2, np.full((pad, s2.shape[1]), padv)])
    n_rows = -((-(len(padded) - width + 1)) // stride)
    exp = np.array([(K @ padded[i * stride:i * stride + width][pos]).flatten() for i in range(n_rows)]).reshape(n_rows, -1)
    bad = []
    if res.shape != exp.shape:
        bad.append("shape %s expected %s" % (res.shape, exp.shape))
    elif not np.allclose(res, exp, rtol=1e-6, atol=1e-9, equal_nan=False):
        bad.append("contents differ: %s vs %s" % (res.tolist(), exp.tolist()))
    if not np.array_equal(seq, seq0):
        bad.append("input modified")
    return res, exp, bad


def replay_sliding(r):
    try:
        res, exp, bad = _run(r)
    except Exception as e:
        return {"violation": True, "detail": "%s: %s" % (type(e).__name__, e)}
    return {"violation": bool(bad), "detail": "; ".join(bad)[:600]}


def witness_sliding(r):
    res, exp, bad = _run(r)
    e = np.array(r["expected"]["windows"], dtype=float).reshape(res.shape) if np.size(r["expected"]["windows"]) == res.size else None
    return {"match": bool(e is not None and np.allclose(res, e, rtol=1e-6, atol=1e-9)), "got": res.tolist()}


def replay_seqdiff(r):
    inp = r["inputs"]
    seq = np.array(inp["seq"], dtype=np.float64)
    s = inp["stride"]
    try:
        res = SequentialDifferenceTransformer(stride=s).fit([seq]).transform([seq])[0]
    except Exception as e:
        return {"violation": True, "detail": "%s: %s" % (type(e).__name__, e)}
    s2 = seq.reshape(len(seq), -1)
    exp = s2[s:] - s2[:-s]
    bad = res.shape != exp.shape or not np.allclose(res, exp)
    return {"violation": bool(bad), "detail": "got shape %s expected %s" % (res.shape, exp.shape)}


def replay_window_lemma(r):
    inp = r["inputs"]
    L, width, stride = int(inp["L"]), int(inp["width"]), int(inp["stride"])
    if L > 200000:            # keep the replay small: same residues, smaller size
        k = (L - width) // stride
        k = min(k, 1000)
        width = min(width, 50)
        stride = min(stride, 50)
        L = width + k * stride + (int(inp["L"]) - int(inp["width"])) % max(1, min(int(inp["stride"]), 50))
    seq = np.arange(L, dtype=np.float64)
    try:
        res = SlidingWindowTransformer(window_width=width, window_stride=stride).fit([seq]).transform([seq])[0]
    except Exception as e:
        return {"violation": True, "detail": "%s: %s" % (type(e).__name__, e)}
    n = -((-(L - width + 1)) // stride)
    exp = np.array([seq[i * stride:i * stride + width] for i in range(n)]).reshape(n, width)
    bad = res.shape != exp.shape or not np.array_equal(res, exp)
    return {"violation": bool(bad), "detail": "L=%d width=%d stride=%d: %d windows, expected %d" % (L, width, stride, res.shape[0], n)}


def replay_difference_lemma(r):
    from vectorizers._window_kernels import difference_kernel
    inp = r["inputs"]
    n_cols, start, step, stride = [int(inp[k]) for k in ("n_cols", "start", "step", "stride")]
    if n_cols > 5000:
        return {"violation": False, "detail": "too large to replay"}
    try:
        K = difference_kernel(n_cols, start, step, stride)
    except Exception as e:
        return {"violation": True, "detail": "%s: %s" % (type(e).__name__, e)}
    rows = [k for k in range(n_cols) if start + k * stride + step < n_cols]
    E = np.zeros((len(rows), n_cols))
    for k in rows:
        E[k, start + k * stride] = -1
        E[k, start + k * stride + step] = 1
    bad = K.shape != E.shape or not np.array_equal(K, E)
    return {"violation": bool(bad), "detail": "n_cols=%d start=%d step=%d stride=%d: shape %s expected %s" % (n_cols, start, step, stride, K.shape, E.shape)}
