"""C13 replay drivers: call histories on the real estimators with deep before/after comparison."""
import copy
import numpy as np
import scipy.sparse as sp

MASK = -7


def deq(a, b):
    """deep equality that understands numpy arrays, sparse matrices, numba typed containers and estimator attributes"""
    if sp.issparse(a) or sp.issparse(b):
        if not (sp.issparse(a) and sp.issparse(b)) or a.shape != b.shape or a.format != b.format:
            return False
        for n in ("data", "indices", "indptr", "row", "col"):
            if hasattr(a, n) and not np.array_equal(getattr(a, n), getattr(b, n), equal_nan=True):
                return False
        return True
    if isinstance(a, np.ndarray) or isinstance(b, np.ndarray):
        try:
            return isinstance(a, np.ndarray) and isinstance(b, np.ndarray) and a.shape == b.shape and (
                np.array_equal(a, b, equal_nan=True) if a.dtype.kind in "fc" else np.array_equal(a, b))
        except Exception:
            return False
    if isinstance(a, dict):
        return isinstance(b, dict) and list(a.keys()) == list(b.keys()) and all(deq(a[k], b[k]) for k in a)
    if isinstance(a, (list, tuple)):
        return type(a) is type(b) and len(a) == len(b) and all(deq(x, y) for x, y in zip(a, b))
    if callable(a) or isinstance(a, type):
        return a is b
    if hasattr(a, "__dict__") and not isinstance(a, (int, float, str)):
        return type(a) is type(b) and deq(vars(a), vars(b))
    try:
        r = a == b
        return bool(r) if not isinstance(r, np.ndarray) else bool(np.all(r))
    except Exception:
        return a is b


def snap(est, skip=()):
    out = {}
    for k, v in vars(est).items():
        if k in skip:
            continue
        try:
            out[k] = copy.deepcopy(v)
        except Exception:
            out[k] = v
    return out


def _docs(D):
    return [[int(t) for t in d] for d in D]


def _strs(D):
    return ["".join(chr(int(c)) for c in s) for s in D]


def _make(kind, inp):
    params = {}
    X, Y1, Y2 = inp["X"], inp["Y1"], inp["Y2"]
    if kind in ("ngram", "ngram_mask", "ngram_dict"):
        from vectorizers import NgramVectorizer
        kw = dict(ngram_size=2, ngram_behaviour="subgrams")
        if kind == "ngram_mask":
            kw.update(mask_string=MASK, excluded_tokens={int(inp["excl"])} if "excl" in inp else None)
        if kind == "ngram_dict":
            d = {int(X[0][0]): 0}
            params["token_dictionary"] = d
            kw.update(token_dictionary=d, mask_string=MASK, ngram_size=1)
        return NgramVectorizer(**kw), _docs(X), [_docs(Y1), _docs(Y2)], params
    if kind == "skipgram":
        from vectorizers import SkipgramVectorizer
        return SkipgramVectorizer(window_radius=2), _docs(X), [_docs(Y1), _docs(Y2)], params
    if kind in ("token", "token_dict_mask", "token_mask"):
        from vectorizers import TokenCooccurrenceVectorizer
        kw = dict(window_radii=1, window_orientations="after", normalize_windows=False)
        if kind == "token_mask":
            kw.update(mask_string=MASK, excluded_tokens={int(inp["excl"])} if "excl" in inp else None)
        if kind == "token_dict_mask":
            d = {int(X[0][0]): 0}
            params["token_dictionary"] = d
            kw.update(token_dictionary=d, mask_string=MASK)
        return TokenCooccurrenceVectorizer(**kw), _docs(X), [_docs(Y1), _docs(Y2)], params
    if kind in ("multiset", "timed", "ngramcooc"):
        from impl_replay.cooc_family import CLS, _corpus
        k = {"ngramcooc": "ngram"}.get(kind, kind)
        kw = dict(window_radii=1, window_orientations="after", normalize_windows=False)
        if k == "ngram":
            kw["ngram_size"] = 2
        return CLS[k](**kw), _corpus(k, X), [_corpus(k, Y1), _corpus(k, Y2)], params
    if kind == "lz":
        from vectorizers import LZCompressionVectorizer
        return LZCompressionVectorizer(max_dict_size=4, max_columns=None, random_state=0), _strs(X), [_strs(Y1), _strs(Y2)], params
    if kind == "bpe":
        from vectorizers import BytePairEncodingVectorizer
        return (BytePairEncodingVectorizer(max_vocab_size=2, min_token_occurrence=1, return_type="sequences"), _strs(X), [_strs(Y1), _strs(Y2)], params)
    if kind == "edgelist":
        from vectorizers import EdgeListVectorizer
        f = lambda E: [(int(a), int(b), float(v)) for a, b, v in E]
        return EdgeListVectorizer(), f(X), [f(Y1), f(Y2)], params
    raise ValueError(kind)


def replay_history(r):
    kind = r["params"]["kind"]
    bad = []
    try:
        est, X, Ys, params = _make(kind, r["inputs"])
        pcopy = copy.deepcopy(params)
        Xc = copy.deepcopy(X)
        ret = est.fit(X)
        if ret is not est:
            bad.append("fit does not return the estimator")
        if not deq(X, Xc):
            bad.append("fit modified its input")
        if not deq(params, pcopy):
            bad.append("fit modified a constructor parameter object: %r -> %r" % (pcopy, params))
        s0 = snap(est)
        Yc = copy.deepcopy(Ys)
        T1 = est.transform(Ys[0])
        if not deq(snap(est), s0):
            bad.append("transform(Y1) changed the estimator: %s" % [k for k in s0 if not deq(s0[k], vars(est).get(k))])
        est.transform(Ys[1])
        if not deq(snap(est), s0):
            bad.append("transform(Y2) changed the estimator: %s" % [k for k in s0 if not deq(s0[k], vars(est).get(k))])
        T1b = est.transform(Ys[0])
        if not deq(T1, T1b):
            bad.append("repeated transform(Y1) differs")
        if not deq(Ys, Yc):
            bad.append("transform modified its input")
        if not deq(params, pcopy):
            bad.append("a constructor parameter object was modified: %r -> %r" % (pcopy, params))
    except Exception as e:
        return {"violation": True, "detail": "%s: %s" % (type(e).__name__, e)}
    return {"violation": bool(bad), "detail": "; ".join(bad)[:800]}


def _mat(layout):
    ctor = sp.csr_matrix if layout["fmt"] == "csr" else sp.csc_matrix
    return ctor((np.array(layout["data"], dtype=np.float64), np.array(layout["indices"], dtype=np.int32),
                 np.array(layout["indptr"], dtype=np.int32)), shape=tuple(layout["shape"]))


def replay_matrix(r):
    p, inp = r["params"], r["inputs"]
    bad = []
    try:
        if p["kind"] == "info_weight":
            from vectorizers.transformers import InformationWeightTransformer
            est = InformationWeightTransformer(prior_strength=0.1, approx_prior=False)
        else:
            from vectorizers.transformers import RowDenoisingTransformer
            est = RowDenoisingTransformer(em_precision=0.6)
        X = _mat(inp["xlayout"])
        Xc = X.copy()
        est.fit(X)
        if not deq(X, Xc):
            bad.append("fit modified the caller's matrix (indices %s -> %s, data %s -> %s)" % (Xc.indices.tolist(), X.indices.tolist(), Xc.data.tolist(), X.data.tolist()))
        if "ylayout" in inp and (p["kind"] == "info_weight" or hasattr(est, "background_model_")):
            Y = _mat(inp["ylayout"])
            Yc = Y.copy()
            s0 = snap(est, skip=("mix_weights_",))
            T1 = est.transform(Y)
            if not deq(Y, Yc):
                bad.append("transform modified the caller's matrix")
            if not deq(snap(est, skip=("mix_weights_",)), s0):
                bad.append("transform changed the estimator")
            T2 = est.transform(Y)
            if not np.allclose(T1.toarray(), T2.toarray(), equal_nan=True):
                bad.append("repeated transform differs")
    except Exception as e:
        return {"violation": True, "detail": "%s: %s" % (type(e).__name__, e)}
    return {"violation": bool(bad), "detail": "; ".join(bad)[:800]}


def replay_random_state(r):
    from vectorizers.transformers import CountFeatureCompressionTransformer
    inp = r["inputs"]
    seed = int(inp["random_state"])
    rng = np.random.RandomState(12345)
    # a matrix wide enough for the randomised range finder to matter (the counterexample's own matrix is embedded in it)
    X = rng.poisson(1.0, size=(40, 30)).astype(np.float64) + 0.01
    x0 = np.array(inp["X"], dtype=np.float64)
    X[:x0.shape[0], :x0.shape[1]] += x0
    try:
        a = CountFeatureCompressionTransformer(n_components=3, n_iter=1, random_state=seed).fit_transform(sp.csr_matrix(X))
        np.random.seed(999)       # two fits must agree whatever the state of the global generator
        b = CountFeatureCompressionTransformer(n_components=3, n_iter=1, random_state=seed).fit_transform(sp.csr_matrix(X))
    except Exception as e:
        return {"violation": True, "detail": "%s: %s" % (type(e).__name__, e)}
    bad = a.shape != b.shape or not np.allclose(a, b, rtol=1e-9, atol=1e-9)
    return {"violation": bool(bad), "detail": "two fits with random_state=%d differ by %g" % (seed, float(np.max(np.abs(a - b))) if a.shape == b.shape else -1)}


def replay_tempfiles(r):
    """real files: a private TMPDIR, a blockwise fit of the real WassersteinVectorizer (optionally with a distribution that
    makes a later block fail), then a listing of the directory"""
    import os, tempfile, shutil
    from vectorizers import WassersteinVectorizer
    p = r["params"]
    base = tempfile.mkdtemp(prefix="symx_c13_")
    try:
        rng = np.random.RandomState(0)
        vecs = rng.normal(size=(6, 3))
        X = rng.random_sample((40, 6))
        if p["fail"]:
            X[35, :] = 0.0
            X[35, 0], X[35, 1] = 2.0, -1.0     # an invalid distribution (negative mass) in a later block
        est = WassersteinVectorizer(n_components=2, memory_size="1k", cachedir=base, random_state=0)
        raised = None
        try:
            est.fit(sp.csr_matrix(X), vectors=vecs)
        except Exception as e:
            raised = "%s: %s" % (type(e).__name__, str(e)[:80])
        left = []
        for root, dirs, files in os.walk(base):
            for n in dirs + files:
                left.append(os.path.relpath(os.path.join(root, n), base))
        return {"violation": bool(left), "detail": "left behind in cachedir after the call %s: %s" % ("raised (%s)" % raised if raised else "returned", sorted(left))}
    finally:
        shutil.rmtree(base, ignore_errors=True)
