"""C20 replay drivers: the real HistogramVectorizer (real pandas) vs the partition / conservation statement."""
import warnings
import numpy as np
from vectorizers import HistogramVectorizer


def _f(x):
    if isinstance(x, str):
        return float(x.replace("Infinity", "inf"))
    return float(x)


def _run(r):
    p, inp = r["params"], r["inputs"]
    a0, a1 = [(-np.inf if v is None else _f(v)) for v in inp["absolute_range"]]
    train = [[float(x) for x in t] for t in inp["train"]]
    test = [[float(x) for x in t] for t in inp.get("test", [[], []])]
    with warnings.catch_warnings():
        warnings.simplefilter("ignore")
        est = HistogramVectorizer(n_components=p["n_comp"], strategy=p["strategy"], absolute_range=(a0, a1),
                                  append_outlier_bins=p["outlier"])
        ret = est.fit(train)
        bins = list(est.bin_intervals_)
        out = est.transform(test) if test and "test" in inp else np.zeros((2, len(bins)))
    bad = []
    if ret is not est:
        bad.append("fit does not return the estimator")
    edges = [[b.left, b.right] for b in bins]
    if not bins:
        bad.append("no bins")
    else:
        if edges[0][0] != a0:
            bad.append("first bin starts at %r, range starts at %r" % (edges[0][0], a0))
        if edges[-1][1] != a1:
            bad.append("last bin ends at %r, range ends at %r" % (edges[-1][1], a1))
        for k in range(len(edges)):
            if edges[k][0] > edges[k][1]:
                bad.append("bin %d reversed" % k)
        for k in range(len(edges) - 1):
            if edges[k][1] != edges[k + 1][0]:
                bad.append("gap / overlap between bins %d and %d: %r" % (k, k + 1, edges))
        if p["strategy"] == "uniform":
            if (not p["outlier"] and len(bins) != p["n_comp"]) or not (p["n_comp"] <= len(bins) <= p["n_comp"] + 2):
                bad.append("number of bins %d" % len(bins))
    if "test" in inp:
        if out.shape != (len(test), len(bins)):
            bad.append("shape %s" % (out.shape,))
        else:
            for i, row in enumerate(test):
                want = sum(1 for x in row if a0 < x <= a1)
                if out[i].sum() != want or np.any(out[i] < 0) or np.any(out[i] != np.round(out[i])):
                    bad.append("row %d holds %s, %d values lie in the range" % (i, out[i].tolist(), want))
                for k, (l, rr) in enumerate(edges):
                    if out[i, k] != sum(1 for x in row if l < x <= rr):
                        bad.append("count[%d,%d]" % (i, k))
    return edges, out, bad


def replay_hist(r):
    try:
        edges, out, bad = _run(r)
    except Exception as e:
        return {"violation": True, "detail": "%s: %s" % (type(e).__name__, e)}
    return {"violation": bool(bad), "detail": "; ".join(bad)[:800]}


def witness_hist(r):
    edges, out, bad = _run(r)
    exp = r["expected"]
    ee = [[_f(a) if a is not None else None for a in e] for e in exp["edges"]]
    ok = len(ee) == len(edges) and all(np.isclose(x, y, rtol=1e-9, atol=1e-12) or x == y for e1, e2 in zip(ee, edges) for x, y in zip(e1, e2))
    rows = np.array(exp["rows"], dtype=float)
    ok = ok and rows.shape == out.shape and np.array_equal(rows, out)
    return {"match": bool(ok), "got": {"edges": [[repr(a) for a in e] for e in edges], "rows": out.tolist()}}
