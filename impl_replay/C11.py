"""C11 replay: real em_update_matrix / TokenCooccurrenceVectorizer with EM, under NUMBA_BOUNDSCHECK=1."""
import numpy as np
from numba.typed import List
import vectorizers.coo_utils as cu
from vectorizers import TokenCooccurrenceVectorizer


def _unit(r):
    p, inp = r["params"], r["inputs"]
    V = p["V"]
    indptr = np.array(inp["indptr"], dtype=np.int32)
    indices = np.array(inp["indices"], dtype=np.int32)
    prior = np.array(inp["prior"], dtype=np.float32)
    post0 = np.array(inp["post0"], dtype=np.float32)
    t = int(inp["target"])
    windows, kernels = List(), List()
    for w, k in zip(inp["windows"], inp["kernels"]):
        windows.append(np.array(w, dtype=np.int32))
        kernels.append(np.array(k, dtype=np.float64))
    out = cu.em_update_matrix(post0.copy(), indices, indptr, prior, V, t, windows, kernels)
    lo, hi = indptr[t], indptr[t + 1]
    row = {int(indices[j]): j for j in range(lo, hi)}
    weights = []
    for w, (win, ker) in enumerate(zip(inp["windows"], inp["kernels"])):
        for c, k in zip(win, ker):
            col = c + w * V
            weights.append((col, k * float(prior[row[col]]) if col in row else 0.0))
    total = sum(x for _, x in weights)
    exp = post0.astype(np.float64).copy()
    if total > 0:
        for col, x in weights:
            if col in row:
                exp[row[col]] += x / total
    return out, exp


def replay_em_unit(r):
    try:
        out, exp = _unit(r)
    except IndexError as e:
        return {"violation": True, "detail": "IndexError under NUMBA_BOUNDSCHECK=1: %s" % e}
    bad = not np.allclose(out, exp, rtol=1e-4, atol=1e-5)
    return {"violation": bool(bad), "detail": "got %s expected %s" % (out.tolist(), exp.tolist())}


def witness_em_unit(r):
    out, exp = _unit(r)
    e = np.array(r["expected"]["posterior"], dtype=float)
    return {"match": bool(out.shape == e.shape and np.allclose(out, e, rtol=1e-4, atol=1e-5)), "got": out.tolist()}


def _dense(M0, V, ncols, occ, n_iter, eps):
    def nt(M):
        M = M.copy()
        s = np.abs(M).sum(axis=0)
        s[s == 0] = 1
        M = M / s
        M[M < eps] = 0
        return M
    M = nt(M0)
    for _ in range(n_iter):
        new = np.zeros_like(M)
        for tok, ctx in occ:
            ws = [(c, k * M[tok, c]) for c, k in ctx]
            tot = sum(x for _, x in ws)
            if tot > 0:
                for c, x in ws:
                    new[tok, c] += x / tot
        M = nt(new)
    return M


def replay_em_pipeline(r):
    p, inp = r["params"], r["inputs"]
    X, eps = inp["X"], float(inp["epsilon"])
    radius, orientation, kernel, n_iter = p["radius"], p["orientation"], p["kernel"], p["n_iter"]
    try:
        est = TokenCooccurrenceVectorizer(window_radii=radius, window_orientations=orientation, kernel_functions=kernel,
                                          n_iter=n_iter, epsilon=eps, normalize_windows=True, n_threads=p.get("n_threads", 1))
        M = est.fit_transform(X).toarray()
    except IndexError as e:
        return {"violation": True, "detail": "IndexError under NUMBA_BOUNDSCHECK=1: %s" % e}
    vocab = est.token_label_dictionary_
    V = len(vocab)
    seqs = [[vocab[t] for t in d] for d in X]
    rev = [True, False] if orientation == "directional" else [orientation == "before"]
    ncols = len(rev) * V
    M0 = np.zeros((V, ncols))
    occ = []
    for doc in seqs:
        for q0, tok in enumerate(doc):
            ctx = []
            for i, rv in enumerate(rev):
                for k in range(1, radius + 1):
                    q = q0 - k if rv else q0 + k
                    if 0 <= q < len(doc):
                        ctx.append((doc[q] + i * V, {"flat": 1.0, "harmonic": 1.0 / k, "geometric": 0.9 ** k}[kernel]))
            occ.append((tok, ctx))
            tot = sum(k for _, k in ctx)
            for c, k in ctx:
                M0[tok, c] += k / tot if tot > 0 else k
    E = _dense(M0, V, ncols, occ, n_iter, eps)
    # ignore cells that sit within float tolerance of the threshold
    near = np.abs(np.where(E == 0, M, E) - eps) < 1e-5
    bad = M.shape != E.shape or not np.allclose(np.where(near, 0, M), np.where(near, 0, E), rtol=1e-3, atol=1e-5)
    return {"violation": bool(bad), "detail": "got %s expected %s" % (M.tolist(), E.tolist())}
