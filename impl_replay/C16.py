"""C16 replay drivers: the real LZCompressionVectorizer vs an independent parse."""
import numpy as np
from vectorizers.mixed_gram_vectorizer import LZCompressionVectorizer


def _s(c):
    return "".join(chr(v) for v in c)


def parse(s, base, max_size):
    d = dict(base)
    size = len(d)
    capped = False
    start = 0
    for end in range(len(s)):
        ph = s[start:end]
        if ph in d:
            d[ph] += 1
        elif size >= max_size:
            capped = True
            start = end
        else:
            d[ph] = 1
            size += 1
            start = end
    return d, capped


def _run(r):
    p, inp = r["params"], r["inputs"]
    X = [_s(c) for c in inp["X"]]
    Y = [_s(c) for c in inp["Y"]]
    base = None
    if p["with_base"]:
        import numba
        base = {_s(inp["base"][0]): int(inp["base"][1])}
    bad = []
    out = {}
    if p["hashed"]:
        # the symbolic hash is an arbitrary function; on the real build only structural clauses can be replayed
        est = LZCompressionVectorizer(max_dict_size=p["max_dict_size"], max_columns=int(inp["max_columns"]), random_state=0)
        M = est.fit_transform(X)
        T = est.transform(Y) if Y else None
        if M.shape[1] > inp["max_columns"]:
            bad.append("more than max_columns columns")
        for s, row in zip(X, M.toarray()):
            _, capped = parse(s, {}, p["max_dict_size"])
            if not capped and row.sum() != len(s):
                bad.append("row total %r != len %d" % (row.sum(), len(s)))
        if T is not None and T.shape != (len(Y), M.shape[1]):
            bad.append("transform shape")
        return bad, out
    est = LZCompressionVectorizer(max_dict_size=p["max_dict_size"], max_columns=None, base_dictionary=base)
    M = est.fit_transform(X)
    cols = dict(est.column_label_dictionary_)
    if M.shape != (len(X), len(cols)):
        bad.append("fit shape %s" % (M.shape,))
    Md = M.toarray()
    for i, s in enumerate(X):
        d, capped = parse(s, base or {}, p["max_dict_size"])
        for label, j in cols.items():
            if Md[i, j] != d.get(label, 0):
                bad.append("fit cell (%d,%r): %r vs %r" % (i, label, Md[i, j], d.get(label, 0)))
        if not capped and Md[i].sum() != len(s) + sum((base or {}).values()):
            bad.append("fit row total")
    out["fit"] = Md.tolist()
    if Y:
        T = est.transform(Y)
        if T.shape != (len(Y), len(cols)):
            bad.append("transform shape %s expected %s" % (T.shape, (len(Y), len(cols))))
        else:
            Td = T.toarray()
            for i, s in enumerate(Y):
                d, _ = parse(s, base or {}, p["max_dict_size"])
                for label, j in cols.items():
                    if Td[i, j] != d.get(label, 0):
                        bad.append("transform cell (%d,%r)" % (i, label))
                if not np.array_equal(est.transform([s]).toarray()[0], Td[i]):
                    bad.append("row %d differs from its singleton transform" % i)
            out["transform"] = Td.tolist()
    return bad, out


def replay_lz(r):
    try:
        bad, _ = _run(r)
    except Exception as e:
        return {"violation": True, "detail": "%s: %s" % (type(e).__name__, e)}
    return {"violation": bool(bad), "detail": "; ".join(bad)[:600]}


def witness_lz(r):
    bad, out = _run(r)
    e = r["expected"]
    ok = out.get("fit") == e["fit"]["dense"] and ("transform" not in e or out.get("transform") == e["transform"]["dense"])
    return {"match": bool(ok), "got": out}
