"""C03 replay drivers: the real compiled numba_build_skip_grams vs an independent float reference."""
import numpy as np
import numba
from numba.typed import List
import vectorizers.token_cooccurrence_vectorizer as tc
import vectorizers._window_kernels as wk


def reference(docs, V, radii, reversals, kind, power, offsets, knorm, mix, normalize_windows):
    nw = len(reversals)
    M = np.zeros((V, nw * V))
    for doc in docs:
        n = len(doc)
        for p in range(n):
            tok = doc[p]
            per = []
            for i in range(nw):
                r = radii[i][tok]
                ws = []
                k = 1
                while True:
                    q = p - k if reversals[i] else p + k
                    if q < 0 or q >= n or k > r:
                        break
                    w = {"flat": 1.0, "harmonic": 1.0 / k, "geometric": power ** k}[kind]
                    if k <= offsets[i]:
                        w = 0.0
                    ws.append((q, w))
                    k += 1
                s = sum(w for _, w in ws)
                if knorm[i] and s > 0:
                    ws = [(q, w / s) for q, w in ws]
                per.append([(q, mix[i] * w) for q, w in ws])
            total = sum(w for ws in per for _, w in ws)
            for i, ws in enumerate(per):
                for q, w in ws:
                    if normalize_windows and total > 0:
                        w = w / total
                    M[tok, doc[q] + i * V] += w
    return M


def _run(r):
    p, inp = r["params"], r["inputs"]
    V, kind = p["V"], p["kind"]
    nw = len(p["reversals"])
    docs = inp["docs"]
    seqs = List()
    for d in docs:
        seqs.append(np.array(d, dtype=np.int32))
    radii = np.array(inp["radii"], dtype=np.int64)
    kfun = {"flat": wk.flat_kernel, "harmonic": wk.harmonic_kernel, "geometric": wk.geometric_kernel}[kind]
    kargs = List()
    for i in range(nw):
        a = (None, bool(inp["knorm"][i]), int(inp["offsets"][i]))
        if kind == "geometric":
            a = a + (float(inp["power"]),)
        kargs.append(a)
    coo = tc.numba_build_skip_grams(seqs, radii, np.array(p["reversals"]), tuple([kfun] * nw), kargs,
                                    np.array(inp["mix"], dtype=np.float64), bool(p["normalize_windows"]), V,
                                    np.array([64] * nw, dtype=np.int64))
    M = np.zeros((V, nw * V))
    bad = []
    for i, c in enumerate(coo):
        n = c.ind[0]
        for row, col, val in zip(c.row[:n].tolist(), c.col[:n].tolist(), c.val[:n].tolist()):
            if not (0 <= row < V and i * V <= col < (i + 1) * V):
                bad.append("entry (%d,%d) outside block %d" % (row, col, i))
            else:
                M[row, col] += val
    ref = reference(docs, V, radii.tolist(), p["reversals"], kind, float(inp["power"]), inp["offsets"], inp["knorm"],
                    inp["mix"], p["normalize_windows"])
    return M, ref, bad


def replay_token_unit(r):
    M, ref, bad = _run(r)
    if not np.allclose(M, ref, rtol=1e-4, atol=1e-6):
        bad.append("cells differ: got %s expected %s" % (M.tolist(), ref.tolist()))
    if "transpose" in r.get("assertion", ""):
        V = r["params"]["V"]
        if not np.allclose(M[:, :V], M[:, V:].T, rtol=1e-4, atol=1e-6):
            bad.append("before != after.T")
    return {"violation": bool(bad), "detail": "; ".join(bad)[:600]}


def witness_token_unit(r):
    M, ref, bad = _run(r)
    exp = np.array(r["expected"]["cells"], dtype=float).reshape(M.shape)
    return {"match": bool(np.allclose(M, exp, rtol=1e-4, atol=1e-6)), "got": M.tolist()}


def replay_window_lemma(r):
    import numpy as np
    from vectorizers._window_kernels import window_at_index
    inp, p = r["inputs"], r["params"]
    n, rad, ind = min(int(inp["len"]), 5000), min(int(inp["radius"]), 6000), int(inp["ind"])
    ind = min(ind, n - 1)
    seq = np.arange(n, dtype=np.int64)
    try:
        w = window_at_index(seq, rad, ind, reverse=bool(p["reverse"]))
    except Exception as e:
        return {"violation": True, "detail": "%s: %s" % (type(e).__name__, e)}
    exp = [ind - k for k in range(1, rad + 1) if ind - k >= 0] if p["reverse"] else [ind + k for k in range(1, rad + 1) if ind + k < n]
    bad = list(w) != exp
    return {"violation": bool(bad), "detail": "len=%d radius=%d ind=%d: %s expected %s" % (n, rad, ind, list(w)[:8], exp[:8])}
