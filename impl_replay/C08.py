"""C08 replay drivers.  The plumbing / truncation cases run with NUMBA_DISABLE_JIT=1 (the package's interpreter
fallback) so that the arguments reaching the per-row kernels can be recorded on the real code."""
import numpy as np
import scipy.sparse as sp


def _l1(a, b):
    r = 0.0
    for i in range(len(a)):
        r += abs(a[i] - b[i]) * ((4.0 + i) / 4.0)
    return r


def _est(lot, input_method, metric, ref, rd, comp, n_rows, dim, memory_size):
    kw = {}
    if input_method == "generator":
        kw = dict(generator_vector_dim=dim, generator_n_distributions=n_rows)
    est = lot.WassersteinVectorizer(method="LOT_exact", input_method=input_method, metric=metric, memory_size=memory_size,
                                    max_distribution_size=256, **kw)
    est.reference_vectors_ = np.array(ref, dtype=np.float64)
    est.reference_distribution_ = np.array(rd, dtype=np.float64)
    est.components_ = np.array(comp, dtype=np.float64)
    return est


def _csr(rows, n_vec, scale=None):
    indptr, idx, dat = [0], [], []
    for i, r in enumerate(rows):
        for c, w in enumerate(r):
            idx.append(c)
            dat.append(w * (scale[i] if scale else 1.0))
        indptr.append(len(idx))
    return sp.csr_matrix((np.array(dat, dtype=np.float64), np.array(idx, dtype=np.int32), np.array(indptr, dtype=np.int32)), shape=(len(rows), n_vec))


def replay_plumbing(r):
    import vectorizers.linear_optimal_transport as lot
    p, inp = r["params"], r["inputs"]
    im, mname = p["input_method"], p["metric_name"]
    rows = inp["rows"]
    vec = np.array(inp["vectors"], dtype=np.float64)
    n_vec = len(vec)
    metric = "cosine" if mname == "cosine" else _l1
    est = _est(lot, im, metric, inp["reference_vectors"], inp["reference_distribution"], inp["components"], len(rows), vec.shape[1],
               str(int(inp["memory_size_bytes"])))
    calls = []
    orig_s, orig_d = lot.lot_vectors_sparse_internal, lot.lot_vectors_dense_internal
    n_out = est.reference_vectors_.size

    def F(key):
        # a fixed, injective-enough stand-in for the per-row kernel
        return np.array([sum((c + 1) * 1.7 ** d * w for c, w in key) + 0.01 * d for d in range(n_out)])

    def sparse_internal(indptr, indices, data, sample_vectors, reference_vectors, reference_distribution, metric=None,
                        max_distribution_size=256, chunk_size=256, spherical_vectors=True):
        out = []
        for k in range(len(indptr) - 1):
            key = [(int(indices[j]), float(data[j])) for j in range(indptr[k], indptr[k + 1])]
            calls.append(dict(key=key, spherical=bool(spherical_vectors)))
            out.append(F(key))
        return np.array(out).reshape(len(out), n_out)

    def dense_internal(sample_vectors, sample_distributions, reference_vectors, reference_distribution, metric=None,
                       max_distribution_size=256, chunk_size=256, spherical_vectors=True):
        out = []
        for k in range(len(sample_distributions)):
            d = np.array(sample_distributions[k], dtype=float)
            key = [(c, float(d[c] / d.sum())) for c in range(len(d))]
            calls.append(dict(key=key, spherical=bool(spherical_vectors)))
            out.append(F(key))
        return np.array(out).reshape(len(out), n_out)
    lot.lot_vectors_sparse_internal, lot.lot_vectors_dense_internal = sparse_internal, dense_internal
    bad = []
    try:
        if im == "spmatrix":
            res = est.transform(_csr(rows, n_vec), vectors=vec)
        elif im == "lil":
            res = est.transform([np.array(x, dtype=np.float64) for x in rows], vectors=[vec[:len(x)].copy() for x in rows])
        else:
            res = est.transform((np.array(x, dtype=np.float64) for x in rows), vectors=(vec[:len(x)].copy() for x in rows))
    except Exception as e:
        return {"violation": True, "detail": "%s: %s" % (type(e).__name__, e)}
    finally:
        lot.lot_vectors_sparse_internal, lot.lot_vectors_dense_internal = orig_s, orig_d
    if res.shape != (len(rows), est.components_.shape[0]):
        bad.append("shape %s" % (res.shape,))
    if len(calls) != len(rows):
        bad.append("%d kernel rows for %d distributions" % (len(calls), len(rows)))
    else:
        for i, x in enumerate(rows):
            tot = float(sum(x))
            key = [(c, w / tot) for c, w in enumerate(x)]
            got = calls[i]["key"]
            if len(got) != len(key) or any(g[0] != k[0] or abs(g[1] - k[1]) > 1e-12 for g, k in zip(got, key)):
                bad.append("kernel row %d saw %s instead of %s" % (i, got, key))
            elif res.shape[0] == len(rows) and not np.allclose(res[i], F(key) @ est.components_.T, rtol=1e-9, atol=1e-12):
                bad.append("output row %d is not F(row %d) @ components.T" % (i, i))
            if calls[i]["spherical"] != (mname == "cosine"):
                bad.append("row %d: spherical_vectors=%s with metric %s" % (i, calls[i]["spherical"], mname))
    return {"violation": bool(bad), "detail": "; ".join(bad)[:800]}


def replay_measure(r):
    """compiled run of the real kernels (the LP solve is the real one here): re-encodings must agree to 1e-9"""
    import numba
    import vectorizers.linear_optimal_transport as lot

    @numba.njit()
    def l1(a, b):
        s = 0.0
        for i in range(a.shape[0]):
            s += np.abs(a[i] - b[i]) * ((4.0 + i) / 4.0)
        return s
    p, inp = r["params"], r["inputs"]
    rows = inp["rows"]
    vec = np.array(inp["vectors"], dtype=np.float64)
    rd = np.array(inp["reference_distribution"], dtype=np.float64)
    est = _est(lot, "spmatrix", l1, inp["reference_vectors"], rd / rd.sum(), inp["components"], len(rows), vec.shape[1], "2G")
    try:
        base = est.transform(_csr(rows, len(vec)), vectors=vec)
        if p["variant"] == "scale":
            other = est.transform(_csr(rows, len(vec), inp["scale"]), vectors=vec)
        elif p["variant"] == "lil":
            est.input_method = "lil"
            X = [np.array(x, dtype=np.float64) for x in rows]
            Xc = [x.copy() for x in X]
            other = est.transform(X, vectors=[vec[:len(x)].copy() for x in rows])
            if any(not np.array_equal(a, b) for a, b in zip(X, Xc)):
                return {"violation": True, "detail": "transform modified the caller's distribution arrays: %s -> %s" % ([c.tolist() for c in Xc], [x.tolist() for x in X])}
        else:
            other = est.transform(_csr(rows + rows, len(vec)), vectors=vec)
            base = np.vstack([base, base])
    except Exception as e:
        return {"violation": True, "detail": "%s: %s" % (type(e).__name__, e)}
    bad = other.shape != base.shape or not np.allclose(other, base, rtol=1e-7, atol=1e-9)
    return {"violation": bool(bad), "detail": "%s vs %s" % (other.tolist(), base.tolist())}


def replay_truncate(r):
    import vectorizers.linear_optimal_transport as lot
    p, inp = r["params"], r["inputs"]
    w = np.array(inp["weights"], dtype=np.float64)
    vec = np.array(inp["vectors"], dtype=np.float64)
    ref = np.array(inp["reference"], dtype=np.float64)
    calls = []
    orig = lot.transport_plan

    def rec(pp, qq, cost, max_iter=100000):
        calls.append((np.array(pp), np.array(cost)))
        return np.zeros((len(pp), len(qq)))
    lot.transport_plan = rec
    try:
        lot.lot_vectors_sparse_internal(np.array([0, len(w)], dtype=np.int32), np.arange(len(w), dtype=np.int32), w.copy(), vec, ref,
                                        np.array([1.0]), metric=_l1, max_distribution_size=p["mds"], chunk_size=256, spherical_vectors=False)
    except Exception as e:
        return {"violation": True, "detail": "%s: %s" % (type(e).__name__, e)}
    finally:
        lot.transport_plan = orig
    if len(calls) != 1:
        return {"violation": True, "detail": "%d transport problems" % len(calls)}
    pp, cost = calls[0]
    m = min(len(w), p["mds"])
    order = np.argsort(-w)[:m]
    exp_p = w[order] / w[order].sum()
    exp_c = np.array([_l1(vec[i], ref[0]) for i in order])
    got = sorted(zip(pp.tolist(), cost[:, 0].tolist()))
    want = sorted(zip(exp_p.tolist(), exp_c.tolist()))
    bad = len(got) != len(want) or not np.allclose(np.array(got), np.array(want), rtol=1e-6, atol=1e-9)
    return {"violation": bool(bad), "detail": "kept (weight, cost) %s expected %s" % (got, want)}


def replay_chunks(r):
    """compiled run of the real per-row kernels: the same rows in one call with a small chunk_size vs one call per row"""
    import numba
    from pynndescent.distances import cosine
    import vectorizers.linear_optimal_transport as lot
    p, inp = r["params"], r["inputs"]
    rng = np.random.RandomState(1)
    # the counterexample's rows, embedded in a problem with enough structure for the result to be non-degenerate
    rows = [np.array(x, dtype=np.float64) for x in inp["rows"]]
    vec = rng.normal(size=(2, 3)); ref = rng.normal(size=(2, 3)); rd = np.array([0.5, 0.5])
    sph = bool(p["spherical"])
    if sph:
        vec /= np.linalg.norm(vec, axis=1, keepdims=True); ref /= np.linalg.norm(ref, axis=1, keepdims=True)
    metric = cosine

    def run(rs, cs):
        if p["variant"] == "sparse":
            indptr = np.arange(0, 2 * len(rs) + 1, 2, dtype=np.int32)
            idx = np.array([0, 1] * len(rs), dtype=np.int32)
            dat = np.concatenate(rs)
            return lot.lot_vectors_sparse_internal(indptr, idx, dat, vec, ref, rd, metric=metric, max_distribution_size=256, chunk_size=cs, spherical_vectors=sph)
        sv = numba.typed.List(); sd = numba.typed.List()
        for x in rs:
            sv.append(vec.copy()); sd.append(x.copy())
        return lot.lot_vectors_dense_internal(sv, sd, ref, rd, metric=metric, max_distribution_size=256, chunk_size=cs, spherical_vectors=sph)
    try:
        B = run(rows, int(p["chunk_size"]))
        bad = []
        for i, x in enumerate(rows):
            S = run([x], 256)
            if not np.allclose(B[i], S[0], rtol=1e-7, atol=1e-9):
                bad.append("row %d: %s in the batch, %s alone" % (i, B[i].tolist(), S[0].tolist()))
    except Exception as e:
        return {"violation": True, "detail": "%s: %s" % (type(e).__name__, e)}
    return {"violation": bool(bad), "detail": "; ".join(bad)[:600]}
