"""C10 replay drivers (run under NUMBA_BOUNDSCHECK=1): the real kernels must not raise an index / unbound-variable error."""
import numpy as np
import scipy.sparse as sp

MEM = (IndexError, UnboundLocalError, NameError)


def _csc(layout):
    return sp.csc_matrix((np.array(layout["data"], dtype=np.float64), np.array(layout["indices"], dtype=np.int32),
                          np.array(layout["indptr"], dtype=np.int32)), shape=tuple(layout["shape"]))


def replay_iw(r):
    from vectorizers.transformers.info_weight import information_weight
    inp, p = r["inputs"], r["params"]
    m = _csc(inp["layout"])
    t = np.array(inp["target"], dtype=np.int64) if p["variant"] == "supervised" else None
    try:
        w = information_weight(m, float(inp["prior_strength"]), p["variant"] == "approx", t)
    except MEM as e:
        return {"violation": True, "detail": "%s: %s" % (type(e).__name__, e)}
    except Exception as e:
        return {"violation": False, "detail": "other exception %s: %s" % (type(e).__name__, e)}
    return {"violation": False, "detail": "weights %s" % w.tolist()}


def replay_row_denoise(r):
    from vectorizers.transformers import RowDenoisingTransformer
    X = sp.csr_matrix(np.array(r["inputs"]["dense"], dtype=np.float64))
    try:
        est = RowDenoisingTransformer(em_precision=0.6).fit(X.copy())
        if hasattr(est, "background_model_"):
            est.transform(X.copy())
    except MEM as e:
        return {"violation": True, "detail": "%s: %s" % (type(e).__name__, e)}
    except Exception as e:
        return {"violation": False, "detail": "other exception %s: %s" % (type(e).__name__, e)}
    return {"violation": False, "detail": "ok"}
