"""replay drivers for the co-occurrence family harness (MultiSet / Timed / Ngram co-occurrence; real package).
Run with NUMBA_BOUNDSCHECK=1 (set by the case), so an out-of-range access of a compiled kernel raises IndexError."""
import numpy as np
from vectorizers import MultiSetCooccurrenceVectorizer, TimedTokenCooccurrenceVectorizer, NgramCooccurrenceVectorizer

CLS = {"multiset": MultiSetCooccurrenceVectorizer, "timed": TimedTokenCooccurrenceVectorizer, "ngram": NgramCooccurrenceVectorizer}


def _corpus(kind, X):
    if X is None:
        return None
    if kind == "timed":
        return [[(int(t[0]), float(t[1])) for t in d] for d in X]
    if kind == "multiset":
        return [[[int(t) for t in m] for m in d] for d in X]
    return [[int(t) for t in d] for d in X]


def _kw(kind, cfg):
    kw = dict(window_radii=cfg.get("radii", 1), window_orientations=cfg.get("orientations", "directional"),
              kernel_functions=cfg.get("kernel", "flat"), normalize_windows=cfg.get("normalize_windows", True),
              n_iter=cfg.get("n_iter", 0), n_threads=cfg.get("n_threads", 1), coo_initial_memory=cfg.get("mem", "0.5 GiB"))
    if kind == "ngram":
        kw["ngram_size"] = cfg.get("ngram_size", 2)
    if cfg.get("kernel_args") is not None:
        kw["kernel_args"] = cfg["kernel_args"]
    return kw


def _same(a, b):
    return a.shape == b.shape and np.allclose(a.toarray(), b.toarray(), rtol=1e-5, atol=1e-7)


def _run(r):
    p, inp = r["params"], r["inputs"]
    kind, cfg = p["kind"], p["cfg"]
    X, Y = _corpus(kind, inp["X"]), _corpus(kind, inp.get("Y"))
    C = CLS[kind]
    kw = _kw(kind, cfg)
    bad = []
    est = C(**kw)
    if cfg.get("cap"):
        cap = int(cfg["cap"])

        def _set(token_sequences, est=est):
            est._coo_sizes = np.full(est._n_wide, cap, dtype=np.int64)
        est._set_coo_sizes = _set
    try:
        M = est.fit_transform(X)
    except ValueError as e:
        if "empty" in str(e) or "No tokens" in str(e) or "vocabulary" in str(e):
            return None, None, []
        raise
    V = len(est.token_label_dictionary_)
    if (kind != "ngram" and M.shape[0] != V) or M.shape[1] % max(V, 1) != 0:
        bad.append("fit_transform shape %s with %d tokens" % (M.shape, V))
    if not np.all(np.isfinite(M.data)):
        bad.append("non-finite cells")
    est2 = C(**kw)
    if est2.fit(X) is not est2:
        bad.append("fit does not return self")
    if not _same(est2.cooccurrences_, M):
        bad.append("fit(X).cooccurrences_ != fit_transform(X)")
    if not _same(est2.transform(X), M):
        bad.append("fit(X).transform(X) != fit_transform(X)")
    if cfg.get("alt"):
        k3 = dict(kw)
        k3.update(cfg["alt"])
        if not _same(C(**k3).fit_transform(X), M):
            bad.append("result depends on n_threads / coo_initial_memory")
    T = None
    if Y is not None:
        before = dict(est.token_label_dictionary_)
        T = est.transform(Y)
        if T.shape != M.shape:
            bad.append("transform shape %s vs fitted %s" % (T.shape, M.shape))
        if not _same(est.transform(Y), T):
            bad.append("repeated transform differs")
        if dict(est.token_label_dictionary_) != before:
            bad.append("transform changed the fitted vocabulary")
    return M, T, bad


def replay_family(r):
    try:
        M, T, bad = _run(r)
    except Exception as e:
        return {"violation": True, "detail": "%s: %s" % (type(e).__name__, e)}
    return {"violation": bool(bad), "detail": "; ".join(bad)}


def witness_family(r):
    M, T, bad = _run(r)
    exp = r["expected"]
    if M is None:
        return {"match": False, "got": "fit refused"}

    def eq(m, e):
        e = np.array(e["dense"] if isinstance(e, dict) else e, dtype=float)
        return m.shape == e.shape and np.allclose(m.toarray(), e, rtol=1e-5, atol=1e-6)
    ok = eq(M, exp["fit"]) and (T is None or "transform" not in exp or eq(T, exp["transform"]))
    return {"match": bool(ok), "got": {"fit": M.toarray().tolist(), "transform": None if T is None else T.toarray().tolist()}}


def replay_vs_token(r):
    from vectorizers import TokenCooccurrenceVectorizer
    p, inp = r["params"], r["inputs"]
    kind, cfg = p["kind"], p["cfg"]
    toks = [[int(t) for t in d] for d in inp["tokens"]]
    if kind == "timed":
        X = [[(t, float(tm)) for t, tm in zip(d, ts)] for d, ts in zip(toks, inp["times"])]
    else:
        X = [[[t] for t in d] for d in toks]
    kw = dict(window_radii=cfg.get("radii", 1), window_orientations=cfg.get("orientations", "directional"), kernel_functions="flat",
              normalize_windows=cfg.get("normalize_windows", False))
    try:
        a = CLS[kind](**kw); Ma = a.fit_transform(X)
        b = TokenCooccurrenceVectorizer(**kw); Mb = b.fit_transform(toks)
    except Exception as e:
        return {"violation": True, "detail": "%s: %s" % (type(e).__name__, e)}
    bad = dict(a.token_label_dictionary_) != dict(b.token_label_dictionary_) or not _same(Ma, Mb)
    return {"violation": bool(bad), "detail": "%s vs token %s" % (Ma.toarray().tolist(), Mb.toarray().tolist())}
