import numpy as np
from vectorizers import EdgeListVectorizer


def _cells(E, est, shape):
    M = np.zeros(shape)
    for r, c, v in E:
        if r in est.row_label_dictionary_ and c in est.column_label_dictionary_:
            i, j = est.row_label_dictionary_[r], est.column_label_dictionary_[c]
            if i < shape[0] and j < shape[1]:
                M[i, j] += v
    return M


def _run(r):
    p, inp = r["params"], r["inputs"]
    E = [(int(a), int(b), float(v)) for a, b, v in inp["E"]]
    F = [(int(a), int(b), float(v)) for a, b, v in inp["F"]]
    kw = {}
    if p["fixed"]:
        a, b = inp["row_labels"]
        i0, i1 = inp.get("row_indices", [0, 1])
        kw["row_label_dictionary"] = {a: int(i0), b: int(i1)}
    est = EdgeListVectorizer(joint_space=p["joint"], **kw)
    bad, out = [], {}
    if est.fit(E) is not est:
        bad.append("fit return")
    M = est._train_matrix
    shape = ((max(int(i0), int(i1)) + 1) if p["fixed"] else len(est.row_label_dictionary_), len(est.column_label_dictionary_))
    if M.shape != shape:
        bad.append("fit shape %s vs %s" % (M.shape, shape))
    elif not np.allclose(M.toarray(), _cells(E, est, shape)):
        bad.append("fit cells")
    T0 = est.transform(E)
    if T0.shape != M.shape or not np.allclose(T0.toarray(), M.toarray()):
        bad.append("fit(X).transform(X) != fit_transform(X)")
    out["fit"] = M.toarray().tolist()
    if F:
        T = est.transform(F)
        if T.shape != M.shape:
            bad.append("transform shape %s, fitted %s" % (T.shape, M.shape))
        elif not np.allclose(T.toarray(), _cells(F, est, shape)):
            bad.append("transform cells")
        out["transform"] = T.toarray().tolist()
    return bad, out


def replay_edgelist(r):
    try:
        bad, _ = _run(r)
    except Exception as e:
        return {"violation": True, "detail": "%s: %s" % (type(e).__name__, e)}
    return {"violation": bool(bad), "detail": "; ".join(bad)}


def witness_edgelist(r):
    bad, out = _run(r)
    e = r["expected"]
    ok = np.allclose(out["fit"], e["fit"]["dense"]) and ("transform" not in e or (np.shape(out["transform"]) == np.shape(e["transform"]["dense"]) and np.allclose(out["transform"], e["transform"]["dense"])))
    return {"match": bool(ok), "got": out}
