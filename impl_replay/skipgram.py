import numpy as np
from vectorizers import SkipgramVectorizer


def _cells(docs, est, radius, kind):
    vocab, cols = est._token_dictionary_, est.column_label_dictionary_
    M = np.zeros((len(docs), len(cols)))
    for i, doc in enumerate(docs):
        seq = [t for t in doc if t in vocab]
        for p in range(len(seq)):
            for k in range(1, radius + 1):
                if p + k < len(seq) and (seq[p], seq[p + k]) in cols:
                    M[i, cols[(seq[p], seq[p + k])]] += 1.0 if kind == "flat" else 1.0 / k
    return M


def _run(r):
    p, inp = r["params"], r["inputs"]
    X, Y = inp["X"], inp["Y"]
    kw = {}
    if p["fixed_dict"]:
        kw["token_dictionary"] = {l: i for i, l in enumerate(inp["dict_labels"])}
    est = SkipgramVectorizer(window_radius=p["radius"], kernel_function=p["kind"], **kw)
    bad, out = [], {}
    try:
        ret = est.fit(X)
    except ValueError as e:
        if "empty" in str(e).lower():
            return ["skipped: " + str(e)], out, True
        raise
    if ret is not est:
        bad.append("fit return")
    M = est._train_matrix
    cols = est.column_label_dictionary_
    if M.shape != (len(X), len(cols)):
        bad.append("fit shape %s" % (M.shape,))
    elif not np.allclose(M.toarray(), _cells(X, est, p["radius"], p["kind"])):
        bad.append("fit cells %s vs %s, labels %s" % (M.toarray().tolist(), _cells(X, est, p["radius"], p["kind"]).tolist(), cols))
    vocab = est._token_dictionary_
    for doc in X:
        seq = [t for t in doc if t in vocab]
        for q in range(len(seq)):
            for k in range(1, p["radius"] + 1):
                if q + k < len(seq) and (seq[q], seq[q + k]) not in cols:
                    bad.append("pair %s has no column" % ((seq[q], seq[q + k]),))
    T0 = est.transform(X)
    if T0.shape != M.shape or not np.allclose(T0.toarray(), M.toarray()):
        bad.append("fit(X).transform(X) != fit_transform(X)")
    out["fit"] = M.toarray().tolist()
    if Y:
        T = est.transform(Y)
        if T.shape != (len(Y), len(cols)):
            bad.append("transform shape %s" % (T.shape,))
        else:
            if not np.allclose(T.toarray(), _cells(Y, est, p["radius"], p["kind"])):
                bad.append("transform cells")
            for i, y in enumerate(Y):
                if not np.allclose(est.transform([y]).toarray()[0], T.toarray()[i]):
                    bad.append("row %d != singleton" % i)
        out["transform"] = T.toarray().tolist()
    return bad, out, False


def replay_skipgram(r):
    try:
        bad, out, skipped = _run(r)
        if skipped:
            return {"violation": False, "detail": bad[0]}
    except Exception as e:
        return {"violation": True, "detail": "%s: %s" % (type(e).__name__, e)}
    return {"violation": bool(bad), "detail": "; ".join(bad)[:700]}


def witness_skipgram(r):
    bad, out, skipped = _run(r)
    e = r["expected"]
    ok = np.allclose(out["fit"], e["fit"]["dense"]) and ("transform" not in e or (np.shape(out["transform"]) == np.shape(e["transform"]["dense"]) and np.allclose(out["transform"], e["transform"]["dense"])))
    return {"match": bool(ok), "got": out}
