"""C04 replay drivers: real compiled coo_utils with COO_QUICKSORT_LIMIT lowered before the first JIT compile."""
import os
import numpy as np
import vectorizers.coo_utils as cu

if os.environ.get("SYMX_COO_LIMIT"):
    cu.COO_QUICKSORT_LIMIT = int(os.environ["SYMX_COO_LIMIT"])

import numba


@numba.njit(nogil=True)
def _drive(cap, keys, vals):
    coo = cu.CooArray(
        np.zeros(cap, dtype=np.int32), np.zeros(cap, dtype=np.int32), np.zeros(cap, dtype=np.float32),
        np.zeros(cap, dtype=np.int64), np.zeros(1, dtype=np.int64),
        np.zeros(2 * np.int64(np.ceil(np.log2(cap))), dtype=np.int64), np.zeros(1, dtype=np.int64))
    for i in range(keys.shape[0]):
        k = keys[i]
        coo = cu.coo_append(coo, (np.int32(k), np.int32(2 * k + 1), np.float32(vals[i]), np.int64(k)))
    cu.coo_sum_duplicates(coo)
    cu.merge_all_sum_duplicates(coo)
    n = coo.ind[0]
    return coo.key[:n].copy(), coo.val[:n].copy(), coo.row[:n].copy(), coo.col[:n].copy()


def _eval(r):
    p = r["params"]
    assert cu.COO_QUICKSORT_LIMIT == p["limit"], "threshold not patched"
    keys = np.array(r["inputs"]["keys"], dtype=np.int64)
    vals = np.array(r["inputs"]["vals"], dtype=np.float64)
    k, v, row, col = _drive(p["cap"], keys, vals)
    exp = {}
    for a, b in zip(keys.tolist(), vals.tolist()):
        exp[a] = exp.get(a, 0.0) + float(np.float32(b))
    got = {}
    bad = []
    for a, b, rr, cc in zip(k.tolist(), v.tolist(), row.tolist(), col.tolist()):
        if a in got:
            bad.append("key %d stored twice" % a)
        got[a] = got.get(a, 0.0) + b
        if rr != a or cc != 2 * a + 1:
            bad.append("row/col mismatch for key %d" % a)
    for a in set(exp) | set(got):
        if abs(exp.get(a, 0.0) - got.get(a, 0.0)) > 1e-4 * max(1.0, abs(exp.get(a, 0.0))):
            bad.append("key %d: expected %r got %r" % (a, exp.get(a, 0.0), got.get(a, 0.0)))
    return k, v, bad


def replay_accumulate(r):
    k, v, bad = _eval(r)
    return {"violation": bool(bad), "detail": "; ".join(bad), "got": [k.tolist(), v.tolist()]}


def witness_accumulate(r):
    k, v, bad = _eval(r)
    e = r["expected"]
    ok = k.tolist() == e["key"] and all(abs(a - b) <= 1e-4 * max(1.0, abs(b)) for a, b in zip(v.tolist(), e["val"]))
    return {"match": bool(ok), "got": [k.tolist(), v.tolist()]}


def _merge_step(r):
    inp = r["inputs"]
    key = np.array(inp["keys"], dtype=np.int64)
    val = np.array(inp["vals"], dtype=np.float32)
    ind, depth = int(inp["ind"]), int(inp["depth"])
    coo = cu.CooArray(key.astype(np.int32), (2 * key + 1).astype(np.int32), val.copy(), key.copy(), np.array([ind], dtype=np.int64),
                      np.array(inp["min"], dtype=np.int64), np.array([depth], dtype=np.int64))
    before = {}
    for k, v in zip(key[:ind].tolist(), val[:ind].tolist()):
        before[k] = before.get(k, 0.0) + v
    cu.merge_sum_duplicates(coo)
    n2 = int(coo.ind[0])
    bad = []
    if not (0 <= n2 <= len(key)):
        bad.append("fill pointer %d" % n2)
        return coo, n2, bad
    after = {}
    for k, v, rr, cc in zip(coo.key[:n2].tolist(), coo.val[:n2].tolist(), coo.row[:n2].tolist(), coo.col[:n2].tolist()):
        after[k] = after.get(k, 0.0) + v
        if rr != k or cc != 2 * k + 1:
            bad.append("row/col of key %d" % k)
    for k in set(before) | set(after):
        if abs(before.get(k, 0.0) - after.get(k, 0.0)) > 1e-4 * max(1.0, abs(before.get(k, 0.0))):
            bad.append("key %d: %r before, %r after the merge" % (k, before.get(k, 0.0), after.get(k, 0.0)))
    if abs(int(coo.min[0])) != n2:
        bad.append("|min[0]| = %d but ind = %d" % (abs(int(coo.min[0])), n2))
    return coo, n2, bad


def replay_merge_step(r):
    try:
        coo, n2, bad = _merge_step(r)
    except Exception as e:
        return {"violation": True, "detail": "%s: %s" % (type(e).__name__, e)}
    return {"violation": bool(bad), "detail": "; ".join(bad)[:600]}


def witness_merge_step(r):
    coo, n2, bad = _merge_step(r)
    e = r["expected"]
    ok = len(e["key"]) == n2 and np.array_equal(np.array(e["key"], dtype=np.int64), coo.key[:n2]) and np.allclose(np.array(e["val"], dtype=float), coo.val[:n2], rtol=1e-5)
    return {"match": bool(ok), "got": {"key": coo.key[:n2].tolist(), "val": coo.val[:n2].tolist()}}


class _Sized(list):
    """a document of which only the length matters"""
    def __init__(self, n):
        self.n = n

    def __len__(self):
        return self.n


def _chunks(r):
    from vectorizers.base_cooccurrence_vectorizer import BaseCooccurrenceVectorizer
    from vectorizers import MultiSetCooccurrenceVectorizer
    inp, p = r["inputs"], r["params"]
    sizes = [int(x) for x in inp["sizes"]]
    nt = int(inp["n_threads"])
    if p["kind"] == "multiset":
        data = [[_Sized(n)] for n in sizes]
        return MultiSetCooccurrenceVectorizer._generate_chunk_boundaries(None, data, nt), len(sizes)
    return BaseCooccurrenceVectorizer._generate_chunk_boundaries(None, [_Sized(n) for n in sizes], nt), len(sizes)


def replay_chunks(r):
    try:
        ch, n = _chunks(r)
    except Exception as e:
        return {"violation": True, "detail": "%s: %s" % (type(e).__name__, e)}
    bad = (not ch) or ch[0][0] != 0 or ch[-1][1] != n or any(b != c for (a, b), (c, d) in zip(ch, ch[1:])) or any(not (0 <= a <= b <= n) for a, b in ch)
    return {"violation": bool(bad), "detail": "chunks %s for %d documents" % (ch, n)}


def witness_chunks(r):
    ch, n = _chunks(r)
    return {"match": [list(map(int, c)) for c in ch] == [list(map(int, c)) for c in r["expected"]["chunks"]], "got": [list(map(int, c)) for c in ch]}


def replay_coo_sizes(r):
    from vectorizers.base_cooccurrence_vectorizer import BaseCooccurrenceVectorizer
    from vectorizers import MultiSetCooccurrenceVectorizer
    inp, p = r["inputs"], r["params"]
    cls = MultiSetCooccurrenceVectorizer if p["kind"] == "multiset" else BaseCooccurrenceVectorizer
    est = cls.__new__(cls)
    radii = [int(x) for x in inp["radii"]]
    est.window_radii = radii
    est._window_radii = np.array(radii, dtype=np.int64)
    est._n_wide = len(radii)
    est._full_kernel_args = [(None, False, int(o)) for o in inp["offsets"]]
    est.coo_initial_bytes = int(inp["coo_initial_bytes"])
    est.n_threads = int(inp["n_threads"])
    doc = _Sized(int(inp["corpus_tokens"]))
    try:
        est._set_coo_sizes([[doc]] if p["kind"] == "multiset" else [doc])
    except Exception as e:
        return {"violation": True, "detail": "%s: %s" % (type(e).__name__, e)}
    bad = est._coo_sizes.shape != (len(radii),) or bool(np.any(est._coo_sizes < 2))
    return {"violation": bool(bad), "detail": "_coo_sizes = %s" % est._coo_sizes.tolist()}
