"""C18 replay / witness drivers: run the REAL compiled vectorizers.distances on concrete inputs."""
import numpy as np
import vectorizers.distances as D

TOL = 1e-5


def _sp(inp):
    return (np.array(inp["ind1"], dtype=np.int32), np.array(inp["data1"], dtype=np.float32),
            np.array(inp["ind2"], dtype=np.int32), np.array(inp["data2"], dtype=np.float32))


def _dense(ind, data):
    d = {}
    for i, v in zip(ind.tolist(), data.tolist()):
        d[i] = d.get(i, 0.0) + v
    return d


def _sparse_op_eval(r):
    op = r["params"]["op"]
    i1, d1, i2, d2 = _sp(r["inputs"])
    keep = [a.copy() for a in (i1, d1, i2, d2)]
    ri, rd = getattr(D, "sparse_" + op)(i1, d1, i2, d2)
    ri, rd = ri.copy(), rd.copy()
    a, b = _dense(keep[0], keep[1]), _dense(keep[2], keep[3])
    exp = {}
    for k in sorted(set(a) | set(b)):
        x, y = np.float32(a.get(k, 0.0)), np.float32(b.get(k, 0.0))
        v = {"sum": x + y, "diff": x - y, "mul": x * y}[op]
        if v != 0:
            exp[k] = float(v)
    got = dict(zip(ri.tolist(), rd.tolist()))
    bad = []
    if len(got) != len(ri) or sorted(got) != list(ri.tolist()):
        bad.append("indices not strictly increasing: %s" % ri.tolist())
    if set(got) != set(exp):
        bad.append("index sets differ: got %s expected %s" % (sorted(got), sorted(exp)))
    else:
        for k in exp:
            if abs(got[k] - exp[k]) > TOL * max(1.0, abs(exp[k])):
                bad.append("value at %d: got %r expected %r" % (k, got[k], exp[k]))
    for nm, before, after in zip(("ind1", "data1", "ind2", "data2"), keep, (i1, d1, i2, d2)):
        if not np.array_equal(before, after):
            bad.append("input %s was modified: %s -> %s" % (nm, before.tolist(), after.tolist()))
    return ri, rd, bad


def replay_sparse_op(r):
    ri, rd, bad = _sparse_op_eval(r)
    return {"violation": bool(bad), "detail": "; ".join(bad), "got": [ri.tolist(), rd.tolist()]}


def witness_sparse_op(r):
    ri, rd, bad = _sparse_op_eval(r)
    e = r["expected"]
    ok = ri.tolist() == e["ind"] and len(rd) == len(e["data"]) and all(
        abs(a - b) <= TOL * max(1.0, abs(b)) for a, b in zip(rd.tolist(), e["data"]))
    return {"match": bool(ok), "got": [ri.tolist(), rd.tolist()]}


def replay_dense_union(r):
    i1, d1, i2, d2 = _sp(r["inputs"])
    r1, r2 = D.dense_union(i1, d1, i2, d2)
    a, b = _dense(i1, d1), _dense(i2, d2)
    exp = [(a.get(k, 0.0), b.get(k, 0.0)) for k in sorted(set(a) | set(b)) if a.get(k, 0.0) + b.get(k, 0.0) != 0]
    got = list(zip(r1.tolist(), r2.tolist()))
    bad = len(got) != len(exp) or any(abs(x - u) > TOL or abs(y - v) > TOL for (x, y), (u, v) in zip(got, exp))
    return {"violation": bool(bad), "got": got, "expected": exp}


def replay_set_helpers(r):
    a = np.array(r["inputs"]["ar1"], dtype=np.int32)
    b = np.array(r["inputs"]["ar2"], dtype=np.int32)
    bad = []
    a0, b0 = a.copy(), b.copy()
    if len(a) and D.arr_unique(a).tolist() != sorted(set(a.tolist())):
        bad.append("arr_unique")
    if sorted(set(a.tolist())) == a.tolist() and sorted(set(b.tolist())) == b.tolist():
        if D.arr_union(a, b).tolist() != sorted(set(a.tolist()) | set(b.tolist())):
            bad.append("arr_union")
        if D.arr_intersect(a, b).tolist() != sorted(set(a.tolist()) & set(b.tolist())):
            bad.append("arr_intersect")
    if not (np.array_equal(a, a0) and np.array_equal(b, b0)):
        bad.append("input modified")
    return {"violation": bool(bad), "detail": ",".join(bad)}


def _f(name):
    return getattr(D, name)


def replay_dense(r):
    f = _f(r["params"]["fname"])
    x = np.array(r["inputs"]["x"], dtype=np.float64)
    y = np.array(r["inputs"]["y"], dtype=np.float64)
    x0, y0 = x.copy(), y.copy()
    a = f(x, y)
    b = f(y, x)
    bad = []
    name = r.get("assertion", "")
    if not np.isfinite(a) or not np.isfinite(b):
        bad.append("non-finite value %r" % a)
    elif "symmetric" in name and abs(a - b) > 1e-6:
        bad.append("asymmetric %r %r" % (a, b))
    elif ">= 0" in name and a < -1e-9:
        bad.append("negative")
    elif "<= 1" in name and a > 1 + 1e-6:
        bad.append("> 1")
    elif ("vanishes" in name or "(x, x) = 0" in name) and abs(a) > 1e-6:
        bad.append("non-zero %r" % a)
    if not (np.array_equal(x, x0) and np.array_equal(y, y0)):
        bad.append("input modified")
    return {"violation": bool(bad), "detail": "; ".join(bad), "value": float(a) if np.isfinite(a) else str(a)}


def replay_triangle(r):
    f = _f(r["params"]["fname"])
    x, y, z = (np.array(r["inputs"][k], dtype=np.float64) for k in "xyz")
    a, b, c = f(x, z), f(x, y), f(y, z)
    return {"violation": bool(a > b + c + 1e-6), "values": [float(a), float(b), float(c)]}


def replay_sparse_vs_dense(r):
    fname = r["params"]["fname"]
    i1, d1, i2, d2 = _sp(r["inputs"])
    n = int(max([4] + i1.tolist() + i2.tolist())) + 1
    if "jensen" in fname or "kl" in fname:
        support = sorted(set(i1.tolist()) | set(i2.tolist()))
    else:
        support = list(range(n))
    a, b = _dense(i1, d1), _dense(i2, d2)
    x = np.array([a.get(k, 0.0) for k in support], dtype=np.float64)
    y = np.array([b.get(k, 0.0) for k in support], dtype=np.float64)
    s = getattr(D, "sparse_" + fname)(i1, d1, i2, d2)
    dn = getattr(D, fname)(x, y)
    bad = (not np.isfinite(s)) or abs(s - dn) > 1e-4
    return {"violation": bool(bad), "sparse": float(s) if np.isfinite(s) else str(s), "dense": float(dn) if np.isfinite(dn) else str(dn)}
