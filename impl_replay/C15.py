"""C15 replay drivers: the real LabelledTreeCooccurrenceVectorizer vs an explicit walk count over the parent arrays."""
import numpy as np
import scipy.sparse as sp
from vectorizers import LabelledTreeCooccurrenceVectorizer, TokenCooccurrenceVectorizer


def _adj(parents):
    n = len(parents)
    rows = [p for p in parents if p is not None]
    cols = [i for i, p in enumerate(parents) if p is not None]
    return sp.csr_matrix((np.ones(len(rows)), (np.array(rows, dtype=int), np.array(cols, dtype=int))), shape=(n, n))


def _lab(x, strings):
    if strings:
        return "".join(chr(int(c)) for c in x) if isinstance(x, (list, tuple)) else str(x)
    return int(x)


def _run(r):
    p, inp = r["params"], r["inputs"]
    strings = p["orientation"] == "directional"
    labels = [[_lab(l, strings) for l in labs] for labs in inp["labels"]]
    removed = _lab(inp["removed"], strings) if p["prune"] else None
    kw = {"ignored_tokens": {removed}} if p["prune"] else {}
    mask = p.get("mask")
    mask_label = None
    if mask:
        mask_label = "#" if strings else -7
        kw["mask_string"] = mask_label
        kw["nullify_mask"] = mask == "nullify"
    est = LabelledTreeCooccurrenceVectorizer(window_radius=p["radius"], kernel_function=p["kernel"], window_orientation=p["orientation"], **kw)
    mats = [(_adj(f).tolil() if p.get("lil") else _adj(f)) for f in p["forest"]]
    snap = [m.toarray().copy() for m in mats]
    X = [(m, list(l)) for m, l in zip(mats, labels)]
    try:
        M = est.fit_transform(X)
    except ValueError as e:
        return None, None, ["refused: %s" % e], True
    vocab = est.token_label_dictionary_
    V = len(vocab)
    after = np.zeros((V, V))
    pre_bad = []
    if any(not np.array_equal(m.toarray(), s0) for m, s0 in zip(mats, snap)):
        pre_bad.append("fit modified the caller's adjacency matrices")
    if mask:
        if mask_label not in vocab or vocab[mask_label] != V - 1:
            pre_bad.append("mask entry")
        for parents, labs in zip(p["forest"], labels):
            idx = [(V - 1) if l == removed else vocab.get(l, V - 1) for l in labs]
            for v in range(len(parents)):
                u, k = parents[v], 1
                while u is not None and k <= p["radius"]:
                    if not (mask == "nullify" and (idx[u] == V - 1 or idx[v] == V - 1)):
                        after[idx[u], idx[v]] += 1.0 if p["kernel"] == "flat" else 1.0 / k
                    u, k = parents[u], k + 1
    for parents, labs in ([] if mask else zip(p["forest"], labels)):
        n = len(parents)
        kept = [l != removed for l in labs]

        def cparent(i):
            q = parents[i]
            while q is not None and not kept[q]:
                q = parents[q]
            return q
        for v in range(n):
            if not kept[v]:
                continue
            u, k = cparent(v), 1
            while u is not None and k <= p["radius"]:
                after[vocab[labs[u]], vocab[labs[v]]] += 1.0 if p["kernel"] == "flat" else 1.0 / k
                u, k = cparent(u), k + 1
    o = p["orientation"]
    exp = {"after": after, "before": after.T, "symmetric": after + after.T, "directional": np.hstack([after.T, after])}[o]
    bad = list(pre_bad)
    if removed is not None and removed in vocab:
        bad.append("removed label kept")
    if M.shape != exp.shape:
        bad.append("shape %s expected %s" % (M.shape, exp.shape))
    elif not np.allclose(M.toarray(), exp, rtol=1e-5, atol=1e-7):
        bad.append("cells %s expected %s" % (M.toarray().tolist(), exp.tolist()))
    if p.get("with_transform") and not bad:
        T = est.transform(X)
        if T.shape != M.shape or not np.allclose(T.toarray(), M.toarray()):
            bad.append("transform(X) != fit_transform(X)")
        if any(not np.array_equal(m.toarray(), s0) for m, s0 in zip(mats, snap)):
            bad.append("transform modified the caller's adjacency matrices")
    return M, vocab, bad, False


def replay_tree(r):
    try:
        M, vocab, bad, refused = _run(r)
    except Exception as e:
        return {"violation": True, "detail": "%s: %s" % (type(e).__name__, e)}
    if refused:
        return {"violation": False, "detail": bad[0]}
    return {"violation": bool(bad), "detail": "; ".join(bad)[:700]}


def witness_tree(r):
    M, vocab, bad, refused = _run(r)
    if refused:
        return {"match": False, "got": "refused"}
    e = np.array(r["expected"]["M"]["dense"], dtype=float)
    if e.size == 0 and M.shape[0] * M.shape[1] == 0:
        return {"match": list(M.shape) == list(r["expected"]["M"]["shape"]), "got": list(M.shape)}
    return {"match": bool(e.shape == M.shape and np.allclose(M.toarray(), e, rtol=1e-5, atol=1e-7)), "got": M.toarray().tolist()}


def replay_path(r):
    p, inp = r["params"], r["inputs"]
    labs = [int(l) for l in inp["labels"]]
    n = len(labs)
    try:
        t = LabelledTreeCooccurrenceVectorizer(window_radius=p["radius"], kernel_function=p["kernel"], window_orientation="after")
        Mt = t.fit_transform([(_adj([None] + list(range(n - 1))), labs)])
        k = TokenCooccurrenceVectorizer(window_radii=p["radius"], kernel_functions=p["kernel"], window_orientations="after", normalize_windows=False)
        Mk = k.fit_transform([labs])
    except Exception as e:
        return {"violation": True, "detail": "%s: %s" % (type(e).__name__, e)}
    bad = dict(t.token_label_dictionary_) != dict(k.token_label_dictionary_) or Mt.shape != Mk.shape or not np.allclose(Mt.toarray(), Mk.toarray(), rtol=1e-5)
    return {"violation": bool(bad), "detail": "%s vs %s" % (Mt.toarray().tolist(), Mk.toarray().tolist())}
