"""C07 replay drivers: the real transport_plan / chunked_pairwise_distance / internal LOT kernels."""
import numpy as np
import numba
from scipy.optimize import linprog
from vectorizers.linear_optimal_transport import (transport_plan, chunked_pairwise_distance, lot_vectors_sparse_internal,
                                                  lot_vectors_dense_internal)


@numba.njit()
def absdist(a, b):
    r = 0.0
    for i in range(a.shape[0]):
        r += np.abs(a[i] - b[i]) * ((4.0 + i) / 4.0)
    return r


def lp_optimum(p, q, cost):
    n, m = cost.shape
    A, b = [], []
    for i in range(n):
        r = np.zeros((n, m)); r[i, :] = 1; A.append(r.ravel()); b.append(p[i])
    for j in range(m):
        r = np.zeros((n, m)); r[:, j] = 1; A.append(r.ravel()); b.append(q[j])
    res = linprog(cost.ravel(), A_eq=np.array(A), b_eq=np.array(b), bounds=(0, None), method="highs")
    return res.fun


def replay_plan(r):
    inp = r["inputs"]
    p = np.array(inp["p"], dtype=np.float64); q = np.array(inp["q"], dtype=np.float64)
    p, q = p / p.sum(), q / q.sum()
    cost = np.array(inp["cost"], dtype=np.float64)
    try:
        P = transport_plan(p, q, cost)
    except Exception as e:
        return {"violation": True, "detail": "%s: %s" % (type(e).__name__, e)}
    bad = []
    if P.shape != cost.shape:
        bad.append("shape %s" % (P.shape,))
    else:
        if np.any(P < -1e-12):
            bad.append("negative entry")
        if not np.allclose(P.sum(axis=1), p, atol=1e-9) or not np.allclose(P.sum(axis=0), q, atol=1e-9):
            bad.append("marginals %s / %s instead of %s / %s" % (P.sum(axis=1).tolist(), P.sum(axis=0).tolist(), p.tolist(), q.tolist()))
        opt = lp_optimum(p, q, cost)
        val = float((P * cost).sum())
        if abs(val - opt) > 1e-7 * max(1.0, abs(opt)):
            bad.append("cost %r but the LP optimum is %r" % (val, opt))
    return {"violation": bool(bad), "detail": "; ".join(bad)}


def replay_chunked(r):
    inp = r["inputs"]
    A = np.array(inp["A"], dtype=np.float64).reshape(len(inp["A"]), -1)
    B = np.array(inp["B"], dtype=np.float64).reshape(len(inp["B"]), -1)
    if A.shape[0] == 0:
        A = np.zeros((0, max(B.shape[1], 1)))
    if B.shape[0] == 0:
        B = np.zeros((0, max(A.shape[1], 1)))
    try:
        R = chunked_pairwise_distance(A, B, dist=absdist, chunk_size=int(inp["chunk_size"]))
    except Exception as e:
        return {"violation": True, "detail": "%s: %s" % (type(e).__name__, e)}
    E = np.array([[absdist(A[i], B[j]) for j in range(B.shape[0])] for i in range(A.shape[0])], dtype=np.float32).reshape(A.shape[0], B.shape[0])
    bad = R.shape != E.shape or not np.allclose(R, E, rtol=1e-5, atol=1e-6)
    return {"violation": bool(bad), "detail": "got %s expected %s" % (R.tolist(), E.tolist())}


def replay_orientation(r):
    """runs with NUMBA_DISABLE_JIT=1 (the package's interpreter fallback), so the arguments that reach transport_plan
    can be recorded on the real code"""
    import vectorizers.linear_optimal_transport as lot
    inp, p = r["inputs"], r["params"]
    vec = np.array(inp["vectors"], dtype=np.float64); ref = np.array(inp["reference"], dtype=np.float64)
    w = np.array(inp["weights"], dtype=np.float64); rd = np.array(inp["reference_distribution"], dtype=np.float64)
    calls = []
    orig = lot.transport_plan

    def rec(pp, qq, cost, max_iter=100000):
        calls.append((np.array(pp), np.array(qq), np.array(cost)))
        return np.full((len(pp), len(qq)), 1.0 / (len(pp) * len(qq)))
    lot.transport_plan = rec
    try:
        if p["variant"] == "sparse":
            lot.lot_vectors_sparse_internal(np.array([0, len(w)], dtype=np.int32), np.arange(len(w), dtype=np.int32), w.copy(), vec, ref, rd,
                                            metric=absdist, max_distribution_size=256, chunk_size=256, spherical_vectors=False)
        else:
            lot.lot_vectors_dense_internal([vec], [w.copy()], ref, rd, metric=absdist, max_distribution_size=256, chunk_size=256,
                                           spherical_vectors=False)
    except Exception as e:
        return {"violation": True, "detail": "%s: %s" % (type(e).__name__, e)}
    finally:
        lot.transport_plan = orig
    bad = []
    if len(calls) != 1:
        bad.append("%d calls of transport_plan" % len(calls))
    else:
        pp, qq, cost = calls[0]
        exp = np.array([[absdist(vec[i], ref[j]) for j in range(len(ref))] for i in range(len(vec))]).reshape(len(vec), len(ref))
        if pp.shape != (len(w),) or not np.allclose(pp, w / w.sum()):
            bad.append("first marginal %s" % pp.tolist())
        if qq.shape != (len(rd),) or not np.allclose(qq, rd):
            bad.append("second marginal %s" % qq.tolist())
        if cost.shape != exp.shape or not np.allclose(cost, exp, rtol=1e-5, atol=1e-6):
            bad.append("cost %s instead of %s" % (cost.tolist(), exp.tolist()))
    return {"violation": bool(bad), "detail": "; ".join(bad)}


def replay_arc_lemma(r):
    """a problem of the size the solver returned (up to memory): the real transport_plan on a banded cost must keep its
    marginals; an index that wraps around breaks them"""
    inp = r["inputs"]
    n, m = int(inp["n"]), int(inp["m"])
    n, m = min(n, 4000), min(m, 4000)
    while n * m > 4_000_000:
        n, m = max(1, n // 2), max(1, m // 2)
    if inp.get("declared_locals") and n * m <= 65536:
        n, m = 300, 301            # a declared machine type is the point: go beyond 2^16 arcs (non-square on purpose)
    rng = np.random.RandomState(0)
    p = rng.random_sample(n) + 0.1; p /= p.sum()
    q = rng.random_sample(m) + 0.1; q /= q.sum()
    cost = np.abs(np.linspace(0, 1, n)[:, None] - np.linspace(0, 1, m)[None, :])
    try:
        P = transport_plan(p, q, cost)
    except Exception as e:
        return {"violation": True, "detail": "%s: %s" % (type(e).__name__, e)}
    bad = not np.allclose(P.sum(axis=1), p, atol=1e-8) or not np.allclose(P.sum(axis=0), q, atol=1e-8) or bool(np.any(P < -1e-12))
    return {"violation": bool(bad), "detail": "n=%d m=%d: max row-marginal error %g, max column-marginal error %g" % (
        n, m, float(np.max(np.abs(P.sum(axis=1) - p))), float(np.max(np.abs(P.sum(axis=0) - q))))}


def replay_chunk_lemma(r):
    inp = r["inputs"]
    R, C, cs = int(inp["row_size"]), int(inp["col_size"]), int(inp["chunk_size"])
    R, C, cs = min(R, 3000), min(C, 3000), min(cs, 4000)
    if R * C > 2_000_000:
        C = max(1, 2_000_000 // R)
    rng = np.random.RandomState(0)
    A, B = rng.normal(size=(R, 2)), rng.normal(size=(C, 2))
    try:
        M = chunked_pairwise_distance(A, B, dist=absdist, chunk_size=cs)
    except Exception as e:
        return {"violation": True, "detail": "%s: %s" % (type(e).__name__, e)}
    E = np.array([[absdist(A[i], B[j]) for j in range(C)] for i in range(R)], dtype=np.float32).reshape(R, C)
    bad = M.shape != E.shape or not np.allclose(M, E, rtol=1e-5, atol=1e-6)
    return {"violation": bool(bad), "detail": "rows=%d cols=%d chunk_size=%d" % (R, C, cs)}
