"""C09 replay drivers: real compiled BPE kernels and BytePairEncodingVectorizer."""
import numpy as np
import vectorizers.mixed_gram_vectorizer as mg


def _contract(r):
    x = np.array(r["inputs"]["x"], dtype=np.int64)
    a, b = r["inputs"]["pair"]
    new = r["inputs"]["new"]
    y = mg.contract_pair(x.copy(), (np.int64(a), np.int64(b)), np.int64(new))
    return x, a, b, new, y


def replay_contract(r):
    x, a, b, new, y = _contract(r)
    out = []
    for v in y.tolist():
        out.extend([a, b] if v == new else [v])
    bad = []
    if out != x.tolist():
        bad.append("expansion %s != input %s (encoded %s)" % (out, x.tolist(), y.tolist()))
    import numba
    counts = mg.count_pairs(numba.typed.List([x.copy()])) if len(x) > 1 else None
    if counts is not None and len(counts) > 0:
        y2, _ = mg.contract_and_count_pairs(x.copy(), (np.int64(a), np.int64(b)), counts, np.int64(new))
        if y2.tolist() != y.tolist():
            bad.append("contract_and_count_pairs %s != contract_pair %s" % (y2.tolist(), y.tolist()))
    return {"violation": bool(bad), "detail": "; ".join(bad)}


def witness_contract(r):
    x, a, b, new, y = _contract(r)
    return {"match": y.tolist() == r["expected"]["y"], "got": y.tolist()}


def _s(cps):
    return "".join(chr(c) for c in cps)


def _expand(code, code_list, mcc):
    if code <= mcc:
        return [int(code)]
    p = code_list[int(code) - mcc - 1]
    return _expand(p[0], code_list, mcc) + _expand(p[1], code_list, mcc)


def replay_e2e(r):
    p, inp = r["params"], r["inputs"]
    X = [_s(c) for c in inp["X"]]
    Y = [_s(c) for c in inp["Y"]]
    bad = []
    try:
        est = mg.BytePairEncodingVectorizer(max_vocab_size=p["max_vocab_size"], min_token_occurrence=p["min_occ"],
                                            return_type="sequences", max_char_code=int(inp["max_char_code"]))
        enc = est.fit_transform(X)
        mcc = int(est.max_char_code_)
        cl = [tuple(int(v) for v in q) for q in est.code_list_]
        toks = list(est.tokens_)
        if len(toks) > p["max_vocab_size"]:
            bad.append("more tokens than max_vocab_size")
        for k, t in enumerate(toks):
            if _s(_expand(mcc + 1 + k, cl, mcc)) != t:
                bad.append("token %d is not the concatenation of its pair" % k)
        for s, e in zip(X, enc):
            dec = _s([c for code in e.tolist() for c in _expand(code, cl, mcc)])
            if dec != s:
                bad.append("fit_transform: %r decodes to %r" % (s, dec))
        enc2 = est.transform(X)
        for i, (e, e2) in enumerate(zip(enc, enc2)):
            if e.tolist() != e2.tolist():
                bad.append("transform(train)[%d]=%s != fit_transform %s" % (i, e2.tolist(), e.tolist()))
        if Y:
            ey = est.transform(Y)
            for s, e in zip(Y, ey):
                want = _s([ord(c) if ord(c) <= mcc else 0 for c in s])
                dec = _s([c for code in e.tolist() for c in _expand(code, cl, mcc)])
                if dec != want:
                    bad.append("transform: %r decodes to %r" % (s, dec))
            est.return_type = "tokens"
            tk = est.transform(Y)
            for e, t in zip(ey, tk):
                if [_s(_expand(code, cl, mcc)) for code in e.tolist()] != list(t):
                    bad.append("'tokens' output differs from the sequences output")
    except Exception as e:  # any exception escaping on valid input is a violation
        bad.append("%s: %s" % (type(e).__name__, e))
    return {"violation": bool(bad), "detail": "; ".join(bad)[:800]}


def replay_matrix(r):
    p, inp = r["params"], r["inputs"]
    X = [_s(c) for c in inp["X"]]
    Y = [_s(c) for c in inp["Y"]]
    bad = []
    try:
        seq = mg.BytePairEncodingVectorizer(max_vocab_size=p["max_vocab_size"], return_type="sequences")
        enc = seq.fit_transform(X)
        est = mg.BytePairEncodingVectorizer(max_vocab_size=p["max_vocab_size"], return_type="matrix")
        M = est.fit_transform(X)
        cols = {int(k): int(v) for k, v in est.column_label_dictionary_.items()}
        if M.shape != (len(X), len(cols)):
            bad.append("fit_transform shape %s" % (M.shape,))
        Md = M.toarray()
        for i, e in enumerate(enc):
            for code, j in cols.items():
                if Md[i, j] != e.tolist().count(code):
                    bad.append("fit cell (%d,%d)" % (i, j))
        T = est.transform(Y)
        ey = seq.transform(Y)
        if T.shape != (len(Y), len(cols)):
            bad.append("transform shape %s, expected %s" % (T.shape, (len(Y), len(cols))))
        else:
            Td = T.toarray()
            for i, e in enumerate(ey):
                for code, j in cols.items():
                    if Td[i, j] != e.tolist().count(code):
                        bad.append("transform cell (%d,%d)" % (i, j))
    except Exception as e:
        bad.append("%s: %s" % (type(e).__name__, e))
    return {"violation": bool(bad), "detail": "; ".join(bad)[:800]}
