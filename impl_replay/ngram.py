"""replay drivers for the NgramVectorizer class-level harness (real package)."""
import numpy as np
from vectorizers import NgramVectorizer

MASK = -7


def grams_of(seq, n, behaviour):
    out = []
    for i in range(len(seq)):
        if behaviour == "exact":
            if i + n <= len(seq):
                out.append(tuple(seq[i:i + n]))
        else:
            for j in range(1, n + 1):
                if i + j <= len(seq):
                    out.append(tuple(seq[i:i + j]))
    return out


def counts(docs, est, n, behaviour, mask):
    vocab = est._token_dictionary_
    cols = est.column_label_dictionary_
    M = np.zeros((len(docs), len(cols)))
    for i, doc in enumerate(docs):
        seq = [t if t in vocab else mask for t in doc if (t in vocab or mask is not None)]
        for g in grams_of(seq, n, behaviour):
            for label, j in cols.items():
                lab = label if isinstance(label, tuple) else (label,)
                if tuple(lab) == tuple(g):
                    M[i, j] += 1
    return M


def _colmask(est, n, behaviour, want_unigram_subgram_cols):
    """boolean column selector: the 1-gram columns of subgrams mode (known finding F19) or all the others"""
    cols = est.column_label_dictionary_
    sel = np.zeros(len(cols), dtype=bool)
    for label, j in cols.items():
        lab = label if isinstance(label, tuple) else (label,)
        is_uni = behaviour == "subgrams" and n > 1 and len(lab) == 1
        sel[j] = is_uni == want_unigram_subgram_cols
    return sel


def _mk(p, inp):
    kw = {}
    if p["pruning"] == "excluded":
        kw["excluded_tokens"] = {inp["excluded"]}
    elif p["pruning"] == "min_occ":
        kw["min_occurrences"] = 2
    return NgramVectorizer(ngram_size=p["n"], ngram_behaviour=p["behaviour"], mask_string=MASK if p["masked"] else None, **kw)


def _run(r):
    p, inp = r["params"], r["inputs"]
    X, Y = inp["X"], inp["Y"]
    bad = []
    out = {}
    est = _mk(p, inp)
    mask = MASK if p["masked"] else None
    try:
        ret = est.fit(X)
    except ValueError:
        return ["fit raised ValueError (empty vocabulary?)"], out, True
    if ret is not est:
        bad.append("fit did not return self")
    M = est._train_matrix
    ncols = len(est.column_label_dictionary_)
    sel = _colmask(est, p["n"], p["behaviour"], "1-gram columns in subgrams mode" in r.get("assertion", ""))
    if M.shape != (len(X), ncols):
        bad.append("fit shape")
    elif not np.array_equal(M.toarray()[:, sel], counts(X, est, p["n"], p["behaviour"], mask)[:, sel]):
        bad.append("fit counts %s vs %s" % (M.toarray().tolist(), counts(X, est, p["n"], p["behaviour"], mask).tolist()))
    if p["masked"]:
        vd = est._token_dictionary_
        if MASK not in vd or vd[MASK] != len(vd) - 1:
            bad.append("mask entry")
    T0 = est.transform(X)
    if T0.shape != M.shape or not np.array_equal(T0.toarray(), M.toarray()):
        bad.append("fit(X).transform(X) != fit_transform(X): %s vs %s" % (T0.toarray().tolist(), M.toarray().tolist()))
    out["fit"] = M.toarray().tolist()
    if Y:
        T = est.transform(Y)
        if T.shape != (len(Y), ncols):
            bad.append("transform shape %s" % (T.shape,))
        else:
            if not np.array_equal(T.toarray()[:, sel], counts(Y, est, p["n"], p["behaviour"], mask)[:, sel]):
                bad.append("transform counts")
            for i, y in enumerate(Y):
                if not np.array_equal(est.transform([y]).toarray()[0], T.toarray()[i]):
                    bad.append("row %d != singleton" % i)
        out["transform"] = T.toarray().tolist()
    return bad, out, False


def replay_ngram(r):
    try:
        bad, out, skipped = _run(r)
        if skipped:
            return {"violation": False, "detail": bad[0]}
    except Exception as e:
        return {"violation": True, "detail": "%s: %s" % (type(e).__name__, e)}
    return {"violation": bool(bad), "detail": "; ".join(bad)[:600]}


def witness_ngram(r):
    bad, out, skipped = _run(r)
    e = r["expected"]
    ok = out.get("fit") == e["fit"]["dense"] and ("transform" not in e or out.get("transform") == e["transform"]["dense"])
    return {"match": bool(ok), "got": out}


_ADD_SCRIPT = r"""
import sys, json
import numpy as np
from vectorizers import NgramVectorizer
A, B, Y = json.loads(sys.argv[1])
bad = []
va, vb, vc = NgramVectorizer().fit(A), NgramVectorizer().fit(B), NgramVectorizer().fit(A + B)
s = va + vb
ca, cc = s.column_label_dictionary_, vc.column_label_dictionary_
if set(ca) != set(cc):
    bad.append("columns differ")
else:
    Ms, Mc = s._train_matrix.toarray(), vc._train_matrix.toarray()
    if Ms.shape != Mc.shape or any(not np.array_equal(Ms[:, ca[k]], Mc[:, cc[k]]) for k in ca):
        bad.append("training matrix %s vs %s (columns %s / %s)" % (Ms.tolist(), Mc.tolist(), ca, cc))
    T, Tc = s.transform(Y), vc.transform(Y)
    if T.shape != (len(Y), len(ca)) or any(not np.array_equal(T.toarray()[:, ca[k]], Tc.toarray()[:, cc[k]]) for k in ca):
        bad.append("merged transform")
print("RESULT " + json.dumps(bad))
"""


def _replay_add_hash_orders(A, B, Y):
    """the iteration order of a set of strings depends on PYTHONHASHSEED: run the same merge under several seeds"""
    import os, sys, json, subprocess
    f = lambda D: [["w%d" % int(t) for t in d] for d in D]
    arg = json.dumps([f(A), f(B), f(Y)])
    bad = []
    for seed in range(6):
        env = dict(os.environ, PYTHONHASHSEED=str(seed))
        p = subprocess.run([sys.executable, "-c", _ADD_SCRIPT, arg], env=env, capture_output=True, text=True, timeout=900)
        line = [l for l in p.stdout.split("\n") if l.startswith("RESULT ")]
        if not line:
            bad.append("seed %d: %s" % (seed, p.stderr[-300:]))
        else:
            b = json.loads(line[-1][7:])
            if b:
                bad.append("PYTHONHASHSEED=%d (string tokens): %s" % (seed, "; ".join(b)))
    return bad


def replay_add(r):
    inp = r["inputs"]
    A, B, Y = inp["A"], inp["B"], inp["Y"]
    bad = []
    if "set order" in r.get("assertion", "") or True:
        try:
            bad += _replay_add_hash_orders(A, B, Y)[:2]
        except Exception as e:
            bad.append("%s: %s" % (type(e).__name__, e))
        if bad:
            return {"violation": True, "detail": "; ".join(bad)[:700]}
    try:
        va, vb, vc = NgramVectorizer().fit(A), NgramVectorizer().fit(B), NgramVectorizer().fit(A + B)
        s = va + vb
        ca, cc = s.column_label_dictionary_, vc.column_label_dictionary_
        if set(ca) != set(cc):
            bad.append("columns differ")
        else:
            Ms, Mc = s._train_matrix.toarray(), vc._train_matrix.toarray()
            if Ms.shape != Mc.shape or any(not np.array_equal(Ms[:, ca[k]], Mc[:, cc[k]]) for k in ca):
                bad.append("training matrix")
            T, Tc = s.transform(Y), vc.transform(Y)
            if T.shape != (len(Y), len(ca)) or any(not np.array_equal(T.toarray()[:, ca[k]], Tc.toarray()[:, cc[k]]) for k in ca):
                bad.append("merged transform %s vs %s" % (T.toarray().tolist(), Tc.toarray().tolist()))
    except Exception as e:
        bad.append("%s: %s" % (type(e).__name__, e))
    return {"violation": bool(bad), "detail": "; ".join(bad)[:600]}


def replay_ngrams_lemma(r):
    from vectorizers.ngram_vectorizer import ngrams_of
    inp, p = r["inputs"], r["params"]
    L, n = min(int(inp["len"]), 3000), min(int(inp["ngram_size"]), 3100)
    seq = list(range(L))
    try:
        got = [tuple(g) for g in ngrams_of(seq, n, p["behaviour"])]
    except Exception as e:
        return {"violation": True, "detail": "%s: %s" % (type(e).__name__, e)}
    if p["behaviour"] == "exact":
        exp = [tuple(seq[i:i + n]) for i in range(L) if i + n <= L]
    else:
        exp = [tuple(seq[i:i + j]) for i in range(L) for j in range(1, min(n, 60) + 1) if i + j <= L]
        got = [g for g in got if len(g) <= 60]
    bad = got != exp
    return {"violation": bool(bad), "detail": "len=%d n=%d: %d grams, expected %d" % (L, n, len(got), len(exp))}
