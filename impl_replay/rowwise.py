"""replay driver for the row-wise estimators (singleton differential, fit_transform vs fit + transform) on the real package"""
import numpy as np
import scipy.sparse as sp


def _d(m):
    return m.toarray() if sp.issparse(m) else np.asarray(m)


def replay_rowwise(r):
    p, inp = r["params"], r["inputs"]
    kind = p["kind"]
    bad = []
    try:
        if kind == "bpe":
            from vectorizers import BytePairEncodingVectorizer
            s = lambda D: ["".join(chr(int(c)) for c in x) for x in D]
            X, Y = s(inp["X"]), s(inp["Y"])
            est = BytePairEncodingVectorizer(max_vocab_size=2, min_token_occurrence=1, return_type="matrix")
            if est.fit(X) is not est:
                bad.append("fit return")
            T = _d(est.transform(Y))
            S = [_d(est.transform([y]))[0] for y in Y]
        elif kind == "histogram":
            from vectorizers import HistogramVectorizer
            est = HistogramVectorizer(n_components=2)
            if est.fit([[float(v) for v in inp["train"]]]) is not est:
                bad.append("fit return")
            Y = [[float(v) for v in y] for y in inp["Y"]]
            T = _d(est.transform(Y))
            S = [_d(est.transform([y]))[0] for y in Y]
        elif kind in ("info_weight", "row_denoise"):
            X = sp.csr_matrix(np.array(inp["X"], dtype=np.float64)); Yd = np.array(inp["Y"], dtype=np.float64)
            if kind == "info_weight":
                from vectorizers.transformers import InformationWeightTransformer
                est = InformationWeightTransformer(prior_strength=0.1, approx_prior=False, weight_power=1)
            else:
                from vectorizers.transformers import RowDenoisingTransformer
                est = RowDenoisingTransformer(em_precision=0.6)
            if est.fit(X.copy()) is not est:
                bad.append("fit return")
            T = _d(est.transform(sp.csr_matrix(Yd)))
            S = [_d(est.transform(sp.csr_matrix(Yd[i:i + 1])))[0] for i in range(len(Yd))]
            if kind == "row_denoise":
                F = _d(RowDenoisingTransformer(em_precision=0.6).fit_transform(X.copy()))
                G = _d(est.transform(X.copy()))
                if F.shape != G.shape or not np.allclose(F, G, rtol=1e-5, atol=1e-7, equal_nan=True):
                    bad.append("fit_transform != fit.transform")
        else:
            from vectorizers.transformers import CountFeatureCompressionTransformer
            est = CountFeatureCompressionTransformer(n_components=1, rescaling_power=1)
            est.components_ = np.array(inp["components"], dtype=np.float64)
            est.component_scaling_ = np.array(inp["scaling"], dtype=np.float64)
            Yd = np.array(inp["Y"], dtype=np.float64)
            T = _d(est.transform(sp.csr_matrix(Yd)))
            S = [_d(est.transform(sp.csr_matrix(Yd[i:i + 1])))[0] for i in range(len(Yd))]
        for i, srow in enumerate(S):
            if T[i].shape != srow.shape or not np.allclose(T[i], srow, rtol=1e-6, atol=1e-9, equal_nan=True):
                bad.append("row %d of the batch %s differs from the singleton %s" % (i, T[i].tolist(), srow.tolist()))
    except Exception as e:
        return {"violation": True, "detail": "%s: %s" % (type(e).__name__, e)}
    return {"violation": bool(bad), "detail": "; ".join(bad)[:700]}
