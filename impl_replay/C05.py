"""C05 replay: real preprocessing functions."""
import numpy as np
from vectorizers.preprocessing import preprocess_token_sequences


def replay_structure(r):
    inp = r["inputs"]
    docs = inp["docs"]
    p = inp["params"]
    mode = p["mode"]
    kw = {}
    if mode == "occ":
        kw.update(min_occurrences=p["lo"], max_occurrences=p["hi"])
    elif mode == "freq":
        kw.update(min_frequency=p["lo"], max_frequency=p["hi"])
    elif mode == "doc":
        kw.update(min_document_occurrences=p["dlo"], max_document_occurrences=p["dhi"])
    elif mode == "excluded":
        kw.update(ignored_tokens={p["excl"]}, min_occurrences=p["lo"])
    elif mode == "topk":
        kw.update(max_unique_tokens=p["k"])
    bad = []
    try:
        seqs, vocab, inv, freqs = preprocess_token_sequences([list(d) for d in docs], None, **kw)
    except Exception as e:
        return {"violation": True, "detail": "%s: %s" % (type(e).__name__, e)}
    flat = [t for d in docs for t in d]
    total = len(flat)
    cnt = {t: flat.count(t) for t in set(flat)}
    dcnt = {t: sum(1 for d in docs if t in d) for t in set(flat)}

    def meets(t):
        if mode in ("occ",):
            return p["lo"] <= cnt[t] <= p["hi"]
        if mode == "excluded":
            return cnt[t] >= p["lo"] and t != p["excl"]
        if mode == "freq":
            # exact comparison on rationals with a tolerance band: ignore borderline float cases
            f = cnt[t] / total
            return p["lo"] - 1e-9 <= f <= p["hi"] + 1e-9
        if mode == "doc":
            return p["dlo"] <= dcnt[t] <= p["dhi"]
        return True
    if mode != "topk":
        want = {t for t in cnt if meets(t)}
        if mode == "freq":
            strict = {t for t in cnt if p["lo"] + 1e-9 <= cnt[t] / total <= p["hi"] - 1e-9}
            if not (strict <= set(vocab) <= want):
                bad.append("kept %s, expected between %s and %s" % (sorted(vocab), sorted(strict), sorted(want)))
        elif set(vocab) != want:
            bad.append("kept %s expected %s" % (sorted(vocab), sorted(want)))
    else:
        if len(vocab) > p["k"]:
            bad.append("more than k tokens")
        for t in cnt:
            if t not in vocab:
                for u in vocab:
                    if cnt[u] < cnt[t]:
                        bad.append("kept %r (count %d) but dropped %r (count %d)" % (u, cnt[u], t, cnt[t]))
    if sorted(vocab.values()) != list(range(len(vocab))) or [vocab[t] for t in sorted(vocab)] != list(range(len(vocab))):
        bad.append("indices not 0..n-1 in sorted order: %s" % vocab)
    for d, s in zip(docs, seqs):
        if [vocab[t] for t in d if t in vocab] != list(s):
            bad.append("sequence re-indexing")
    return {"violation": bool(bad), "detail": "; ".join(bad)[:600]}


def replay_rounding(r):
    """concrete corpus with c copies of token 0 and n - c of token 1"""
    inp, mode = r["inputs"], r["params"]["mode"]
    n, c, m = inp["n"], inp["c"], inp["m"]
    docs = [[0] * c + list(range(1, n - c + 1))]
    kw = {"min_occurrences": m} if mode == "min" else {"max_occurrences": m}
    try:
        seqs, vocab, inv, freqs = preprocess_token_sequences(docs, None, **kw)
    except ValueError as e:
        vocab = {}
    kept = 0 in vocab
    want = (c >= m) if mode == "min" else (c <= m)
    return {"violation": kept != want, "detail": "n=%d c=%d bound=%d kept=%s expected=%s" % (n, c, m, kept, want)}


def replay_ngram_stage2(r):
    from vectorizers import NgramVectorizer
    inp, p = r["inputs"], r["params"]
    docs = [[int(t) for t in d] for d in inp["docs"]]
    prm = inp["params"]
    nd = len(docs)
    kw = {}
    lo = dlo = dhi = None
    if p["mode"] == "occ":
        lo = int(prm["lo"]); kw["min_occurrences"] = lo
    elif p["mode"] == "mindoc":
        dlo = int(prm["dlo"]); kw["min_document_occurrences"] = dlo
    elif p["mode"] == "maxdoc":
        dhi = int(prm["dhi"]); kw["max_document_occurrences"] = dhi
    else:
        dlo = int(prm["dlo"]); kw["min_document_frequency"] = dlo / nd
    try:
        est = NgramVectorizer(ngram_size=2, ngram_behaviour="exact", **kw).fit(docs)
    except (ValueError, ZeroDivisionError) as e:
        return {"violation": False, "detail": "refused: %s" % e}
    except Exception as e:
        return {"violation": True, "detail": "%s: %s" % (type(e).__name__, e)}

    def keep(items):
        flat = [g for d in items for g in d]
        out = set()
        for t in set(flat):
            c = flat.count(t)
            dc = sum(1 for d in items if t in d)
            if (lo is None or c >= lo) and (dlo is None or dc >= dlo) and (dhi is None or dc <= dhi):
                out.add(t)
        return out
    kt = keep(docs)
    kd = [[t for t in d if t in kt] for d in docs]
    grams = [[(d[i], d[i + 1]) for i in range(len(d) - 1)] for d in kd]
    want = keep(grams)
    got = set(est.column_label_dictionary_.keys())
    bad = got != want or sorted(est.column_label_dictionary_.values()) != list(range(len(got)))
    return {"violation": bool(bad), "detail": "columns %s expected %s" % (sorted(got), sorted(want))}
