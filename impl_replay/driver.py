"""Runs replay / witness requests against the REAL compiled package (executed with /venv/bin/python).

usage: driver.py <requests.json>   -> writes <requests.json>.out
Each request: {"kind": "replay"|"witness", "target": "module:function", "case":..., "params":..., "inputs":...}
replay functions return {"violation": bool, "detail": str}; witness functions return {"match": bool, ...}.
"""
import sys
import os
import json
import importlib
import traceback

sys.path.insert(0, os.path.dirname(os.path.dirname(os.path.abspath(__file__))))


def main():
    path = sys.argv[1]
    reqs = json.load(open(path))
    out = []
    for r in reqs:
        try:
            modname, fn = r["target"].split(":")
            mod = importlib.import_module("impl_replay." + modname)
            res = getattr(mod, fn)(r)
            if not isinstance(res, dict):
                res = {"violation": bool(res)}
        except (IndexError, UnboundLocalError, NameError) as e:
            # an index / unbound-variable error escaping the real code (NUMBA_BOUNDSCHECK=1 or interpreter fallback)
            # confirms a memory counterexample whatever the replay function was looking for
            res = {"violation": r.get("kind") == "replay", "match": False, "detail": "%s: %s" % (type(e).__name__, e),
                   "trace": traceback.format_exc()[-800:]}
        except BaseException as e:  # noqa
            res = {"violation": False, "match": False, "driver_error": "%s: %s" % (type(e).__name__, e),
                   "trace": traceback.format_exc()[-1500:]}
        out.append(res)
        with open(path + ".out", "w") as f:
            json.dump(out + [{"crashed": True, "detail": "process died before finishing this request"}] * (len(reqs) - len(out)), f)
    with open(path + ".out", "w") as f:
        json.dump(out, f)


if __name__ == "__main__":
    main()
