"""replay drivers for the TokenCooccurrenceVectorizer class-level harness (real package)."""
import numpy as np
from vectorizers import TokenCooccurrenceVectorizer

MASK = -7


def reference(seqs, V, radii, rev, kind, mask_index, normalize_windows):
    nw = len(rev)
    M = np.zeros((V, nw * V))
    for doc in seqs:
        n = len(doc)
        for p in range(n):
            tok = doc[p]
            per = []
            for i in range(nw):
                r = radii[i][tok]
                ws = []
                k = 1
                while True:
                    q = p - k if rev[i] else p + k
                    if q < 0 or q >= n or k > r:
                        break
                    w = {"flat": 1.0, "harmonic": 1.0 / k, "geometric": 0.9 ** k}[kind]
                    if mask_index is not None and doc[q] == mask_index:
                        w = 0.0
                    ws.append((q, w))
                    k += 1
                per.append(ws)
            total = sum(w for ws in per for _, w in ws)
            for i, ws in enumerate(per):
                for q, w in ws:
                    if normalize_windows and total > 0:
                        w = w / total
                    M[tok, doc[q] + i * V] += w
    return M


def expected(docs, est, cfg):
    vocab = est.token_label_dictionary_
    V = len(vocab)
    mask = cfg.get("mask")
    seqs = []
    for d in docs:
        s = []
        for t in d:
            if t in vocab and t != mask:
                s.append(vocab[t])
            elif mask is not None:
                s.append(V - 1)
        seqs.append(s)
    rev, radii = [], []
    for o, r in zip(cfg["orientations"], cfg["radii"]):
        for side in ([True, False] if o == "directional" else [o == "before"]):
            rev.append(side)
            if cfg.get("window_function") == "variable":
                freqs = [float(f) for f in est._token_frequencies_]
                rad = [f ** (0.75 - 1) for f in freqs]
                norm = sum(a * f for a, f in zip(rad, freqs))
                rad = [a / norm for a in rad]
                rad.append(min(rad))
                if cfg.get("nullify"):
                    rad[V - 1] = 0.0
                row = []
                for x in rad:
                    x = x * r
                    if 0 < x < 1:
                        x = 1.0
                    row.append(int(round(x)))
                row = row + [0] * (V + 1 - len(row))
            else:
                row = [r] * (V + 1)
                if cfg.get("nullify"):
                    row[V - 1] = 0
            radii.append(row)
    return reference(seqs, V, radii, rev, cfg["kernel"], (V - 1) if cfg.get("nullify") else None, cfg["normalize_windows"])


def _mk(cfg, inp):
    kw = dict(window_radii=cfg["radii"] if len(cfg["radii"]) > 1 else cfg["radii"][0],
              window_orientations=cfg["orientations"] if len(cfg["orientations"]) > 1 else cfg["orientations"][0],
              kernel_functions=cfg["kernel"] if len(cfg["radii"]) == 1 else [cfg["kernel"]] * len(cfg["radii"]),
              window_functions=cfg.get("window_function", "fixed") if len(cfg["radii"]) == 1 else [cfg.get("window_function", "fixed")] * len(cfg["radii"]),
              normalize_windows=cfg["normalize_windows"],
              n_threads=cfg.get("n_threads", 1), coo_initial_memory=cfg.get("mem", "0.5 GiB"))
    if cfg.get("mask") is not None:
        kw["mask_string"] = cfg["mask"]
        kw["nullify_mask"] = bool(cfg.get("nullify"))
    if cfg.get("excluded"):
        kw["excluded_tokens"] = {inp["excluded"]}
    return TokenCooccurrenceVectorizer(**kw)


def _run(r):
    p, inp = r["params"], r["inputs"]
    cfg = p["cfg"]
    X, Y = inp["X"], inp["Y"]
    bad, out = [], {}
    est = _mk(cfg, inp)
    try:
        M = est.fit_transform(X)
    except ValueError as e:
        if "empty" in str(e):
            return ["skipped: empty vocabulary"], out, True
        raise
    E = expected(X, est, cfg)
    if M.shape != E.shape:
        bad.append("fit_transform shape %s expected %s" % (M.shape, E.shape))
    elif not np.allclose(M.toarray(), E, rtol=1e-4, atol=1e-6):
        bad.append("fit_transform cells %s expected %s" % (M.toarray().tolist(), E.tolist()))
    vocab = est.token_label_dictionary_
    V = len(vocab)
    if cfg.get("mask") is not None and (cfg["mask"] not in vocab or vocab[cfg["mask"]] != V - 1):
        bad.append("mask entry")
    # declared block order and column naming: pre_/post_<window>_<token> -> token index + block * n_vocab
    col = est.column_label_dictionary_
    blk = 0
    for i, o in enumerate(cfg["orientations"]):
        for pre in (["pre_", "post_"] if o == "directional" else (["pre_"] if o == "before" else ["post_"])):
            for t, idx in vocab.items():
                lab = pre + str(i) + "_" + str(t)
                if lab not in col or col[lab] != idx + blk * V:
                    bad.append("column label %s -> %s, expected block %d column %d" % (lab, col.get(lab), blk, idx + blk * V))
            blk += 1
    est2 = _mk(cfg, inp)
    if est2.fit(X) is not est2:
        bad.append("fit return")
    if est2.cooccurrences_.shape != M.shape or not np.allclose(est2.cooccurrences_.toarray(), M.toarray()):
        bad.append("fit(X).cooccurrences_ != fit_transform(X)")
    T0 = est2.transform(X)
    if T0.shape != M.shape or not np.allclose(T0.toarray(), M.toarray(), rtol=1e-4, atol=1e-6):
        bad.append("fit(X).transform(X) != fit_transform(X): %s vs %s" % (T0.toarray().tolist(), M.toarray().tolist()))
    out["fit"] = M.toarray().tolist()
    if Y:
        before = dict(est.token_label_dictionary_)
        T = est.transform(Y)
        ET = expected(Y, est, cfg)
        if T.shape != ET.shape:
            bad.append("transform shape %s expected %s" % (T.shape, ET.shape))
        elif not np.allclose(T.toarray(), ET, rtol=1e-4, atol=1e-6):
            bad.append("transform cells %s expected %s" % (T.toarray().tolist(), ET.tolist()))
        if dict(est.token_label_dictionary_) != before:
            bad.append("transform changed the fitted vocabulary")
        out["transform"] = T.toarray().tolist()
    return bad, out, False


def replay_token_class(r):
    try:
        bad, out, skipped = _run(r)
        if skipped:
            return {"violation": False, "detail": bad[0]}
    except Exception as e:
        return {"violation": True, "detail": "%s: %s" % (type(e).__name__, e)}
    return {"violation": bool(bad), "detail": "; ".join(bad)[:800]}


def witness_token_class(r):
    bad, out, skipped = _run(r)
    e = r["expected"]
    ok = np.shape(out["fit"]) == np.shape(e["fit"]["dense"]) and np.allclose(out["fit"], e["fit"]["dense"], rtol=1e-4, atol=1e-6)
    if ok and "transform" in e:
        ok = np.shape(out["transform"]) == np.shape(e["transform"]["dense"]) and np.allclose(out["transform"], e["transform"]["dense"], rtol=1e-4, atol=1e-6)
    return {"match": bool(ok), "got": out}
