"""C17 replay drivers: the real information_weight / InformationWeightTransformer vs a float64 KL from the definition."""
import numpy as np
import scipy.sparse as sp
from vectorizers.transformers.info_weight import information_weight, InformationWeightTransformer


def _matrix(layout):
    f = layout["fmt"]
    if f == "dense":
        return np.array(layout["dense"], dtype=np.float64)
    sh = tuple(layout["shape"])
    if f == "coo":
        return sp.coo_matrix((np.array(layout["data"], dtype=np.float64), (np.array(layout["row"], dtype=np.int32),
                                                                            np.array(layout["col"], dtype=np.int32))), shape=sh)
    ctor = sp.csr_matrix if f == "csr" else sp.csc_matrix
    return ctor((np.array(layout["data"], dtype=np.float64), np.array(layout["indices"], dtype=np.int32),
                 np.array(layout["indptr"], dtype=np.int32)), shape=sh)


def _dense(m):
    return np.asarray(m.todense()) if sp.issparse(m) else np.asarray(m)


def _kl(D, s):
    rows = D.sum(axis=1)
    base = rows / rows.sum()
    out = []
    for j in range(D.shape[1]):
        norm = D[:, j].sum() + s
        obs = (D[:, j] + s * base) / norm
        k = obs > 0
        out.append(float(np.sum(obs[k] * np.log(obs[k] / base[k]))))
    return np.array(out)


def _weights(r):
    inp = r["inputs"]
    m = _matrix(inp["layout"])
    D = _dense(m).astype(np.float64)
    s = float(inp["prior_strength"])
    mm = sp.csc_matrix(m) if not sp.issparse(m) else m
    w = information_weight(mm, s, False)
    return w, _kl(D, s)


def replay_exact(r):
    try:
        w, ref = _weights(r)
    except Exception as e:
        return {"violation": True, "detail": "%s: %s" % (type(e).__name__, e)}
    bad = (w.shape != ref.shape) or (not np.all(np.isfinite(w))) or (not np.allclose(w, ref, rtol=1e-7, atol=1e-9)) or bool(np.any(w < -1e-9))
    return {"violation": bool(bad), "detail": "weights %s, KL from the definition %s" % (w.tolist(), ref.tolist())}


def witness_exact(r):
    w, ref = _weights(r)
    e = np.array(r["expected"]["weights"], dtype=float)
    return {"match": bool(e.shape == w.shape and np.allclose(w, e, rtol=1e-6, atol=1e-9)), "got": w.tolist()}


def replay_perm(r):
    inp = r["inputs"]
    D = np.array(inp["layout"]["dense"], dtype=np.float64)
    s = float(inp["prior_strength"])
    nr, nc = D.shape
    rp = list(range(1, nr)) + [0]
    cp = list(range(1, nc)) + [0]
    ctor = getattr(sp, r["params"]["fmt"] + "_matrix")
    try:
        wa = information_weight(sp.csr_matrix(D), s, False)
        wb = information_weight(ctor(D[rp][:, cp]), s, False)
    except Exception as e:
        return {"violation": True, "detail": "%s: %s" % (type(e).__name__, e)}
    bad = not np.allclose(wb, wa[cp], rtol=1e-7, atol=1e-9)
    return {"violation": bool(bad), "detail": "%s vs %s" % (wb.tolist(), wa[cp].tolist())}


def replay_transform(r):
    inp = r["inputs"]
    m = _matrix(inp["layout"])
    s, p = float(inp["prior_strength"]), float(inp["weight_power"])
    nc = (_dense(m)).shape[1]
    X = np.array(inp["X"], dtype=np.float64) if "X" in inp else np.ones((2, nc))
    try:
        est = InformationWeightTransformer(prior_strength=s, approx_prior=False, weight_power=p)
        ret = est.fit(m)
        w = est.information_weights_.copy()
        out = est.transform(sp.csr_matrix(X))
        d = _dense(out)
    except Exception as e:
        return {"violation": True, "detail": "%s: %s" % (type(e).__name__, e)}
    bad = []
    if ret is not est:
        bad.append("fit does not return the estimator")
    if not np.all(np.isfinite(w)):
        bad.append("learned weights not finite: %s" % w.tolist())
    elif np.any(w < 0):
        bad.append("negative learned weight: %s" % w.tolist())
    elif d.shape != X.shape or not np.allclose(d, X * w[None, :], rtol=1e-9, atol=1e-12):
        bad.append("transform is not X * w: %s" % d.tolist())
    elif np.any((d != 0) & (X == 0)):
        bad.append("non-zero created")
    if not np.array_equal(est.information_weights_, w, equal_nan=True):
        bad.append("transform changed the learned weights")
    return {"violation": bool(bad), "detail": "; ".join(bad)}
